"""./check selftest determinism [n]: every seed executed twice, in different worker
processes and with different worker layouts (1 x n, 16 x n/16, 7 uneven), in both
build profiles where the engine's verdict must not depend on the profile; the
per-run event-log hashes, final-state digests, outcomes and violation counts
must be identical. A two-run diff catches a one-in-eight divergence only one
time in five, hence the large sample."""
import json
import os
import subprocess
import sys
from concurrent.futures import ThreadPoolExecutor

ENGINES = ["world", "runloop", "queues", "entropy-c12", "entropy-c13", "isolation", "envelope-op", "envelope-growth", "profile"]


def hashes(chk, binary, engine, seed, ranges, tag):
    wdir = os.path.join(chk.WORK, "selftest-%s-%s" % (engine, tag))
    subprocess.run(["rm", "-rf", wdir])
    os.makedirs(wdir)

    def one(r):
        a, b = r
        out = os.path.join(wdir, "h%d.json" % a)
        p = subprocess.run([binary, "batch", engine, "--seed", str(seed), "--from", str(a), "--to", str(b), "--out", out, "--hashes", "1"],
                           env=chk.ENV, stdout=subprocess.DEVNULL, stderr=subprocess.DEVNULL)
        d = {}
        if p.returncode == 0:
            for l in open(out + ".hashes"):
                w = l.split()
                d[int(w[0])] = " ".join(w[1:])
        return d

    res = {}
    with ThreadPoolExecutor(max_workers=chk.NPROC) as pool:
        for d in pool.map(one, ranges):
            res.update(d)
    subprocess.run(["rm", "-rf", wdir])
    return res


def split(n, k):
    step = max(1, n // k)
    out, a = [], 0
    while a < n:
        out.append((a, min(n, a + step)))
        a += step
    return out


def main(chk, argv):
    if not argv or argv[0] != "determinism":
        print(__doc__)
        return 2
    n = int(argv[1]) if len(argv) > 1 else 2000
    seed = int(os.environ.get("VERIF_SEED", chk.DEFAULT_SEED))
    chk.build(("dev", "release"))
    bad = 0
    for e in ENGINES:
        m = n if e not in ("entropy-c12",) else max(200, n // 8)
        base = hashes(chk, chk.BIN["dev"], e, seed, [(0, m)], "a")
        layouts = {"16 workers": split(m, 16), "7 uneven workers": [(a, b) for (a, b) in split(m, 7)], "1 worker again": [(0, m)]}
        ok = len(base) == m
        report = []
        for name, ranges in layouts.items():
            other = hashes(chk, chk.BIN["dev"], e, seed, ranges, "b")
            diff = [i for i in range(m) if base.get(i) != other.get(i)]
            report.append("%s: %d differing" % (name, len(diff)))
            if diff:
                ok = False
                report.append("  first: run %d: %s vs %s" % (diff[0], base.get(diff[0]), other.get(diff[0])))
        if e != "envelope-op":  # wall-clock free engines must agree across build profiles too
            rel = hashes(chk, chk.BIN["release"], e, seed, split(m, 16), "r")
            diff = [i for i in range(m) if base.get(i) != rel.get(i)]
            report.append("release build: %d differing" % len(diff))
            if diff:
                ok = False
                report.append("  first: run %d: %s vs %s" % (diff[0], base.get(diff[0]), rel.get(diff[0])))
        print("%-16s %6d runs  %s  %s" % (e, m, "DETERMINISTIC" if ok else "DIVERGES", "; ".join(report)), flush=True)
        bad += 0 if ok else 1
    return 0 if bad == 0 else 2
