//! shuttlesim — C14 under shuttle's controlled scheduler. Real pushr code runs on
//! shuttle threads; the seam atomic (H4) and instruction wrappers (S-A) are the
//! scheduling points; the seeded Random and PCT schedulers decide every
//! interleaving, and a failing schedule is persisted and replays exactly.
//!   shuttlesim run    --scenario ids|isolation --seed S --iters N --out FILE --dir DIR
//!   shuttlesim replay FILE
#![allow(dead_code)]
#[path = "../../sim/src/gen.rs"]
mod gen;
#[path = "../../sim/src/rng.rs"]
mod rng;
#[path = "../../sim/src/spec.rs"]
mod spec;
#[path = "../../sim/src/statecode.rs"]
mod statecode;

use pushr::push::graph::Graph;
use pushr::push::instructions::{Instruction, InstructionSet};
use pushr::push::interpreter::PushInterpreter;
use pushr::push::item::Item;
use pushr::push::state::PushState;
use pushr::push::verif_seam as seam;
use serde::{Deserialize, Serialize};
use serde_json::json;
use shuttle::scheduler::{PctScheduler, RandomScheduler};
use shuttle::sync::Mutex;
use shuttle::{Config, FailurePersistence, Runner};
use std::collections::BTreeMap;
use std::sync::Arc;

#[derive(Serialize, Deserialize, Clone, Debug)]
struct Scenario {
    kind: String,
    seed: u64,
    threads: usize,
    adds: usize,
    /// thread k builds its nodes through GRAPH.NODE*ADD programs instead of the API
    via_program: Vec<bool>,
}

fn sched_hook(_site: &'static str) {
    // not yield_now: PCT degenerates on pure yields
    shuttle::thread::sleep(std::time::Duration::from_millis(0));
}

/// Entropy for noise tasks: all shuttle tasks share one OS thread, hence one
/// environment slot; the draw order follows the schedule, which shuttle records.
struct SharedEnv {
    rng: rng::Rng,
}

impl seam::Env for SharedEnv {
    fn now_us(&mut self) -> u64 {
        0
    }
    fn sleep_us(&mut self, _us: u64) {}
    fn spawn(&mut self, _c: &str, _a: &[String]) -> std::io::Result<seam::SpawnOutcome> {
        Ok(seam::SpawnOutcome::Child { stdout: false })
    }
    fn entropy_u64(&mut self) -> u64 {
        self.rng.next()
    }
}

/// The shipped registry with a scheduling point before every instruction.
fn yielding_set() -> InstructionSet {
    let mut iset = InstructionSet::new();
    iset.load();
    let mut names = iset.cache().list;
    names.sort();
    for name in names {
        let mut orig = iset.add(name.clone(), Instruction::new(|_, _| {})).unwrap();
        iset.add(
            name,
            Instruction::new(move |st, cache| {
                shuttle::thread::sleep(std::time::Duration::from_millis(0));
                (orig.execute)(st, cache);
            }),
        );
    }
    iset
}

// ------------------------------------------------------------------ unique ids

fn scenario_ids(sc: &Scenario) {
    seam::set_sched_hook(Some(sched_hook));
    let all: Arc<Mutex<Vec<(usize, Vec<usize>, Vec<usize>)>>> = Arc::new(Mutex::new(vec![]));
    let mut handles = vec![];
    for t in 0..sc.threads {
        let all = all.clone();
        let adds = sc.adds;
        let via = sc.via_program[t % sc.via_program.len()];
        handles.push(shuttle::thread::spawn(move || {
            seam::set_sched_hook(Some(sched_hook));
            let mut got: Vec<usize> = vec![];
            let keys: Vec<usize>;
            if via {
                let mut iset = InstructionSet::new();
                iset.load();
                let cache = iset.cache();
                let mut st = PushState::new();
                st.exec_stack.push(Item::instruction("GRAPH.ADD".into()));
                PushInterpreter::step(&mut st, &mut iset, &cache);
                for k in 0..adds {
                    st.int_stack.push(k as i32);
                    st.exec_stack.push(Item::instruction("GRAPH.NODE*ADD".into()));
                    PushInterpreter::step(&mut st, &mut iset, &cache);
                    got.push(st.int_stack.pop().expect("id pushed") as usize);
                }
                let g = st.graph_stack.get(0).expect("graph");
                keys = g.nodes.iter().map(|(k, _)| *k).collect();
            } else {
                // graphs come and go: ids of a dropped graph, of a removed node or of a failed
                // edge insertion must not be handed out again
                let mut scratch = Graph::new();
                let a = scratch.add_node(-1);
                got.push(a);
                scratch.add_edge(a, a + 1_000_000, 0.5); // fails: no such destination
                scratch.remove_node(a);
                got.push(scratch.add_node(-2));
                drop(scratch);
                let mut g = Graph::new();
                for k in 0..adds {
                    got.push(g.add_node(k as i32));
                }
                // a copy of a graph (GRAPH.DUP) and its original both keep growing: the ids they
                // receive afterwards are new ids too
                let mut copy = g.clone();
                let in_copy = copy.add_node(-3);
                got.push(g.add_node(-4));
                let in_copy2 = copy.add_node(-5);
                all.lock().unwrap().push((t + 2000, vec![in_copy, in_copy2], vec![in_copy, in_copy2]));
                keys = g.nodes.iter().map(|(k, _)| *k).collect();
                got.retain(|id| keys.contains(id) || true);
                // ids received for the scratch graph are checked for global uniqueness below;
                // the per-graph comparison uses this graph's own ids only
                let own: Vec<usize> = got[2..].to_vec();
                all.lock().unwrap().push((t, own, keys.clone()));
                all.lock().unwrap().push((t + 1000, got[..2].to_vec(), got[..2].to_vec()));
                return;
            }
            all.lock().unwrap().push((t, got, keys));
        }));
    }
    for h in handles {
        h.join().unwrap();
    }
    let all = all.lock().unwrap();
    let mut seen: BTreeMap<usize, usize> = BTreeMap::new();
    for (t, got, keys) in all.iter() {
        let mut a = got.clone();
        a.sort();
        let mut b = keys.clone();
        b.sort();
        assert!(a == b, "C14 ids: thread {} received ids {:?} but its graph holds {:?}", t, got, keys);
        for id in got {
            if let Some(other) = seen.insert(*id, *t) {
                panic!("C14 ids: node id {} handed out twice (threads {} and {})", id, other, t);
            }
        }
    }
}

// ------------------------------------------------------------------- isolation

fn subject(seed: u64, names: &[String]) -> (spec::ConfigSpec, spec::StateSpec, Vec<spec::ISpec>) {
    let mut r = rng::Rng::new(rng::derive(seed, "shuttle-subject"));
    let mut ctx = gen::GenCtx::new(names);
    ctx.exclude = names
        .iter()
        .filter(|n| n.contains("RAND") || n.starts_with("GRAPH."))
        .cloned()
        .collect();
    // (EXEC.CMD stays in: the seam spawns nothing, and its simulated sleep is a scheduling point, so
    // two interpreters can be inside EXEC.CMD at the same time)
    // keep allocation-sized operands small: no envelope wrapper here
    ctx.exclude.extend(
        ["BOOLVECTOR.ONES", "BOOLVECTOR.ZEROS", "INTVECTOR.ONES", "INTVECTOR.ZEROS", "FLOATVECTOR.ONES", "FLOATVECTOR.ZEROS", "FLOATVECTOR.SINE",
         "LIST.NEIGHBOR*IDS", "LIST.NEIGHBOR*BVALS", "LIST.NEIGHBOR*IVALS", "LIST.NEIGHBOR*FVALS", "CODE.LIST", "CODE.APPEND", "CODE.CONS", "NAME.CAT", "EXEC.S", "LIST.ADD", "LIST.SET", "CODE.PRINT"]
            .iter()
            .map(|s| s.to_string()),
    );
    let mut cfg = spec::ConfigSpec::default_cfg();
    cfg.eval_push_limit = 60;
    let mut state = gen::gen_state(&mut rng::Rng::new(rng::derive(seed, "state")), &mut ctx);
    state.graphs.clear();
    for x in state.ints.iter_mut() {
        if let spec::IntSpec::NodeId { .. } = x {
            *x = spec::IntSpec::V(1);
        }
    }
    let b = 5 + r.below(25) as usize;
    let mut prog = vec![ctx.tree(&mut r, b, 3)];
    if r.chance(1, 2) {
        // a shell-out with 0..2 arguments somewhere in the subject
        let n = r.below(3) as i32;
        let mut v = vec![];
        for k in 0..=n {
            v.push(spec::ISpec::N(format!("cmd{}", k)));
        }
        v.push(spec::ISpec::Int(n));
        v.push(spec::ISpec::I("EXEC.CMD".to_string()));
        v.push(spec::ISpec::Int(7));
        prog.insert(0, spec::ISpec::L(v));
    }
    (cfg, state, prog)
}

fn run_subject(cfg: &spec::ConfigSpec, state: &spec::StateSpec, prog: &[spec::ISpec], yielding: bool) -> (String, String) {
    let mut iset = if yielding {
        yielding_set()
    } else {
        let mut s = InstructionSet::new();
        s.load();
        s
    };
    let mut st = state.build(cfg);
    spec::load_program(&mut st, &iset, prog, false);
    let o = format!("{:?}", PushInterpreter::run(&mut st, &mut iset));
    (o, statecode::statecode(&st))
}

fn scenario_isolation(sc: &Scenario) {
    seam::set_sched_hook(Some(sched_hook));
    seam::install(Box::new(SharedEnv { rng: rng::Rng::new(sc.seed) }));
    let names = {
        let mut s = InstructionSet::new();
        s.load();
        let mut n = s.cache().list;
        n.sort();
        n
    };
    let (cfg, state, prog) = subject(sc.seed, &names);
    let solo = run_subject(&cfg, &state, &prog, false);
    let mut handles = vec![];
    for t in 0..sc.threads {
        let (cfg, state, prog) = (cfg.clone(), state.clone(), prog.clone());
        let noise = sc.via_program[t % sc.via_program.len()];
        let adds = sc.adds;
        handles.push(shuttle::thread::spawn(move || {
            if noise {
                // graph-building, RAND-drawing co-runner
                let mut iset = yielding_set();
                let mut st = PushState::new();
                let mut v = vec![Item::instruction("GRAPH.ADD".into())];
                for k in 0..adds {
                    v.push(Item::int(k as i32));
                    v.push(Item::instruction("GRAPH.NODE*ADD".into()));
                    v.push(Item::instruction("INTEGER.RAND".into()));
                    v.push(Item::instruction("BOOLEAN.RAND".into()));
                    v.push(Item::name(format!("n{}", k)));
                    v.push(Item::instruction("INTEGER.DEFINE".into()));
                    v.push(Item::name("noisecmd".into()));
                    v.push(Item::int(0));
                    v.push(Item::instruction("EXEC.CMD".into()));
                }
                v.reverse();
                st.exec_stack.push(Item::list(v));
                let _ = PushInterpreter::run(&mut st, &mut iset);
                None
            } else {
                Some(run_subject(&cfg, &state, &prog, true))
            }
        }));
    }
    for (t, h) in handles.into_iter().enumerate() {
        if let Some(got) = h.join().unwrap() {
            assert!(got == solo, "C14 isolation: subject copy on thread {} ended {} with a state that {} the solo run's ({})", t, got.0, if got.1 == solo.1 { "equals" } else { "differs from" }, solo.0);
        }
    }
    seam::uninstall();
}

fn run_scenario(sc: &Scenario) {
    match sc.kind.as_str() {
        "ids" => scenario_ids(sc),
        _ => scenario_isolation(sc),
    }
}

fn make_scenario(kind: &str, seed: u64) -> Scenario {
    let mut r = rng::Rng::new(rng::derive(seed, kind));
    let threads = 2 + r.below(if kind == "ids" { 7 } else { 4 }) as usize;
    Scenario {
        kind: kind.to_string(),
        seed,
        threads,
        adds: 1 + r.below(if kind == "ids" { 6 } else { 4 }) as usize,
        via_program: (0..threads).map(|_| r.chance(1, 2)).collect(),
    }
}

fn arg(args: &[String], k: &str, d: &str) -> String {
    args.iter().position(|a| a == k).and_then(|i| args.get(i + 1)).cloned().unwrap_or_else(|| d.to_string())
}

fn newest_schedule(dir: &str) -> Option<String> {
    let mut files: Vec<_> = std::fs::read_dir(dir).ok()?.flatten().map(|e| e.path()).filter(|p| p.to_string_lossy().contains("schedule")).collect();
    files.sort();
    files.last().and_then(|p| std::fs::read_to_string(p).ok())
}

fn main() {
    let args: Vec<String> = std::env::args().collect();
    let cmd = args.get(1).cloned().unwrap_or_default();
    match cmd.as_str() {
        "run" => {
            let kind = arg(&args, "--scenario", "ids");
            let seed: u64 = arg(&args, "--seed", "1").parse().unwrap();
            let iters: usize = arg(&args, "--iters", "1000").parse().unwrap();
            let groups: u64 = arg(&args, "--groups", "8").parse().unwrap();
            let out = arg(&args, "--out", "/dev/stdout");
            let dir = arg(&args, "--dir", "/tmp");
            let _ = std::fs::create_dir_all(&dir);
            let mut total = 0usize;
            let mut failures = vec![];
            let mut samples = vec![];
            let mut workloads: Vec<String> = vec![];
            let t0 = std::time::Instant::now();
            // several workloads (swarm), each explored by a random and a PCT scheduler
            for g in 0..groups {
                let sc = make_scenario(&kind, rng::derive_n(seed, "shuttle", g));
                if samples.len() < 3 {
                    samples.push(serde_json::to_value(&sc).unwrap());
                }
                workloads.push(serde_json::to_string(&sc).unwrap());
                for pct in [false, true] {
                    let mut cfg = Config::new();
                    cfg.failure_persistence = FailurePersistence::File(Some(dir.clone().into()));
                    cfg.stack_size = 1 << 20;
                    let sc2 = sc.clone();
                    let per = iters / (2 * groups as usize).max(1);
                    let res = std::panic::catch_unwind(move || {
                        if pct {
                            Runner::new(PctScheduler::new_from_seed(sc2.seed, 3, per), cfg).run(move || run_scenario(&sc2))
                        } else {
                            Runner::new(RandomScheduler::new_from_seed(sc2.seed, per), cfg).run(move || run_scenario(&sc2))
                        }
                    });
                    match res {
                        Ok(n) => total += n,
                        Err(e) => {
                            let msg = e.downcast_ref::<String>().cloned().or_else(|| e.downcast_ref::<&str>().map(|s| s.to_string())).unwrap_or_default();
                            failures.push(json!({"scenario": sc, "scheduler": if pct {"pct"} else {"random"}, "message": msg, "schedule": newest_schedule(&dir)}));
                            break;
                        }
                    }
                }
                if !failures.is_empty() {
                    break;
                }
            }
            let summary = json!({"kind": kind, "seed": seed, "iterations": total, "groups": groups, "wall_s": t0.elapsed().as_secs_f64(), "failures": failures, "samples": samples, "workloads": workloads});
            std::fs::write(&out, serde_json::to_vec(&summary).unwrap()).unwrap();
        }
        "replay" => {
            let v: serde_json::Value = serde_json::from_slice(&std::fs::read(&args[2]).expect("replay file")).expect("json");
            let sc: Scenario = serde_json::from_value(v["scenario"]["scenario"].clone()).expect("scenario");
            let schedule = v["scenario"]["schedule"].as_str().expect("schedule").to_string();
            let res = std::panic::catch_unwind(move || shuttle::replay(move || run_scenario(&sc), &schedule));
            match res {
                Ok(()) => {
                    println!("replay {}: no violation observed", args[2]);
                    std::process::exit(0);
                }
                Err(e) => {
                    let msg = e.downcast_ref::<String>().cloned().or_else(|| e.downcast_ref::<&str>().map(|s| s.to_string())).unwrap_or_default();
                    if msg.starts_with("C14 ") {
                        println!("observed: {}", msg);
                        println!("VIOLATION property=C14 replay={}", args[2]);
                        std::process::exit(1);
                    }
                    // the recorded schedule no longer fits the code: not the recorded violation
                    println!("replay {}: schedule does not apply to this tree ({})", args[2], msg.chars().take(160).collect::<String>());
                    std::process::exit(3);
                }
            }
        }
        _ => {
            eprintln!("usage: shuttlesim run|replay ...");
            std::process::exit(2);
        }
    }
}
