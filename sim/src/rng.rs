//! Deterministic generators. One integer (VERIF_SEED) decides everything: every
//! choice in a run is drawn from a generator derived from the run seed by a
//! fixed label, so that dropping one component during minimisation does not
//! shift the draws of the others.

#[inline]
pub fn splitmix(x: &mut u64) -> u64 {
    *x = x.wrapping_add(0x9E37_79B9_7F4A_7C15);
    let mut z = *x;
    z = (z ^ (z >> 30)).wrapping_mul(0xBF58_476D_1CE4_E5B9);
    z = (z ^ (z >> 27)).wrapping_mul(0x94D0_49BB_1331_11EB);
    z ^ (z >> 31)
}

pub fn fnv1a(bytes: &[u8]) -> u64 {
    let mut h: u64 = 0xcbf2_9ce4_8422_2325;
    for b in bytes {
        h ^= *b as u64;
        h = h.wrapping_mul(0x0000_0100_0000_01B3);
    }
    h
}

/// Mixes a seed with a label into a new seed.
pub fn derive(seed: u64, label: &str) -> u64 {
    let mut s = seed ^ fnv1a(label.as_bytes()).rotate_left(17);
    splitmix(&mut s)
}

pub fn derive_n(seed: u64, label: &str, n: u64) -> u64 {
    let mut s = derive(seed, label) ^ n.wrapping_mul(0xD6E8_FEB8_6659_FD93);
    splitmix(&mut s)
}

/// xoshiro256**
#[derive(Clone, Debug)]
pub struct Rng {
    s: [u64; 4],
}

impl Rng {
    pub fn new(seed: u64) -> Rng {
        let mut x = seed;
        let s = [
            splitmix(&mut x),
            splitmix(&mut x),
            splitmix(&mut x),
            splitmix(&mut x),
        ];
        Rng { s }
    }

    #[inline]
    pub fn next(&mut self) -> u64 {
        let r = self.s[1].wrapping_mul(5).rotate_left(7).wrapping_mul(9);
        let t = self.s[1] << 17;
        self.s[2] ^= self.s[0];
        self.s[3] ^= self.s[1];
        self.s[1] ^= self.s[2];
        self.s[0] ^= self.s[3];
        self.s[2] ^= t;
        self.s[3] = self.s[3].rotate_left(45);
        r
    }

    /// Uniform in 0..n (n > 0). Slight modulo bias is irrelevant here.
    #[inline]
    pub fn below(&mut self, n: u64) -> u64 {
        debug_assert!(n > 0);
        ((self.next() as u128 * n as u128) >> 64) as u64
    }

    #[inline]
    pub fn range(&mut self, lo: i64, hi_incl: i64) -> i64 {
        lo + self.below((hi_incl - lo + 1) as u64) as i64
    }

    #[inline]
    pub fn chance(&mut self, num: u64, den: u64) -> bool {
        self.below(den) < num
    }

    #[inline]
    pub fn unit(&mut self) -> f64 {
        (self.next() >> 11) as f64 / (1u64 << 53) as f64
    }

    pub fn pick<'a, T>(&mut self, v: &'a [T]) -> &'a T {
        &v[self.below(v.len() as u64) as usize]
    }

    /// Picks an index according to integer weights.
    pub fn weighted(&mut self, w: &[u32]) -> usize {
        let total: u64 = w.iter().map(|x| *x as u64).sum();
        let mut r = self.below(total.max(1));
        for (i, x) in w.iter().enumerate() {
            if r < *x as u64 {
                return i;
            }
            r -= *x as u64;
        }
        w.len() - 1
    }
}
