//! Seam S-D: the global allocator of the harness binary. It meters bytes and
//! calls (a deterministic resource meter, unlike RSS) and refuses allocations
//! that would take the live total above a budget: the "failing allocation"
//! fault. Rust turns a refused allocation into an abort, which the supervisor
//! observes from outside the process.
use std::alloc::{GlobalAlloc, Layout, System};
use std::sync::atomic::{AtomicU64, Ordering::Relaxed};

pub struct Meter;

static LIVE: AtomicU64 = AtomicU64::new(0);
static TOTAL: AtomicU64 = AtomicU64::new(0);
static CALLS: AtomicU64 = AtomicU64::new(0);
static PEAK: AtomicU64 = AtomicU64::new(0);
static LARGEST: AtomicU64 = AtomicU64::new(0);
static LIMIT: AtomicU64 = AtomicU64::new(u64::MAX);
static REFUSED: AtomicU64 = AtomicU64::new(0);

unsafe impl GlobalAlloc for Meter {
    unsafe fn alloc(&self, l: Layout) -> *mut u8 {
        let sz = l.size() as u64;
        let live = LIVE.load(Relaxed);
        if live.saturating_add(sz) > LIMIT.load(Relaxed) {
            REFUSED.fetch_add(1, Relaxed);
            return std::ptr::null_mut();
        }
        let p = System.alloc(l);
        if !p.is_null() {
            account(sz);
        }
        p
    }
    unsafe fn dealloc(&self, p: *mut u8, l: Layout) {
        LIVE.fetch_sub(l.size() as u64, Relaxed);
        System.dealloc(p, l)
    }
    unsafe fn alloc_zeroed(&self, l: Layout) -> *mut u8 {
        let sz = l.size() as u64;
        let live = LIVE.load(Relaxed);
        if live.saturating_add(sz) > LIMIT.load(Relaxed) {
            REFUSED.fetch_add(1, Relaxed);
            return std::ptr::null_mut();
        }
        let p = System.alloc_zeroed(l);
        if !p.is_null() {
            account(sz);
        }
        p
    }
    unsafe fn realloc(&self, p: *mut u8, l: Layout, new: usize) -> *mut u8 {
        let old = l.size() as u64;
        let newsz = new as u64;
        if newsz > old {
            let live = LIVE.load(Relaxed);
            if live.saturating_add(newsz - old) > LIMIT.load(Relaxed) {
                REFUSED.fetch_add(1, Relaxed);
                return std::ptr::null_mut();
            }
        }
        let q = System.realloc(p, l, new);
        if !q.is_null() {
            LIVE.fetch_sub(old, Relaxed);
            account(newsz);
        }
        q
    }
}

#[inline]
fn account(sz: u64) {
    let live = LIVE.fetch_add(sz, Relaxed) + sz;
    TOTAL.fetch_add(sz, Relaxed);
    CALLS.fetch_add(1, Relaxed);
    PEAK.fetch_max(live, Relaxed);
    LARGEST.fetch_max(sz, Relaxed);
}

#[derive(Clone, Copy, Debug, Default)]
pub struct Snapshot {
    pub live: u64,
    pub total: u64,
    pub calls: u64,
}

pub fn snapshot() -> Snapshot {
    Snapshot {
        live: LIVE.load(Relaxed),
        total: TOTAL.load(Relaxed),
        calls: CALLS.load(Relaxed),
    }
}

/// Resets the peak / largest-single-allocation watermarks.
pub fn reset_marks() {
    PEAK.store(LIVE.load(Relaxed), Relaxed);
    LARGEST.store(0, Relaxed);
}

pub fn peak() -> u64 {
    PEAK.load(Relaxed)
}

pub fn largest() -> u64 {
    LARGEST.load(Relaxed)
}

pub fn live() -> u64 {
    LIVE.load(Relaxed)
}

/// Live-byte ceiling for the whole process; allocations above it are refused.
pub fn set_limit(bytes: u64) {
    LIMIT.store(bytes, Relaxed);
}

pub fn refused() -> u64 {
    REFUSED.load(Relaxed)
}
