//! Delta debugging over scenarios: a candidate is kept while it still shows a
//! violation with the same key (property, class, site).
use crate::engines::world::{ProgSpec, WorldSc};
use crate::spec::*;

/// All tree paths in pre-order.
fn paths(t: &ISpec, cur: &mut Vec<usize>, out: &mut Vec<Vec<usize>>) {
    out.push(cur.clone());
    if let ISpec::L(v) = t {
        for (i, c) in v.iter().enumerate() {
            cur.push(i);
            paths(c, cur, out);
            cur.pop();
        }
    }
}

fn remove_at(t: &ISpec, path: &[usize]) -> Option<ISpec> {
    if path.is_empty() {
        return None;
    }
    if let ISpec::L(v) = t {
        let mut v2 = v.clone();
        if path.len() == 1 {
            if path[0] >= v2.len() {
                return None;
            }
            v2.remove(path[0]);
        } else {
            let c = remove_at(&v[path[0]], &path[1..])?;
            v2[path[0]] = c;
        }
        Some(ISpec::L(v2))
    } else {
        None
    }
}

fn get_at<'a>(t: &'a ISpec, path: &[usize]) -> Option<&'a ISpec> {
    if path.is_empty() {
        return Some(t);
    }
    if let ISpec::L(v) = t {
        v.get(path[0]).and_then(|c| get_at(c, &path[1..]))
    } else {
        None
    }
}

fn replace_at(t: &ISpec, path: &[usize], new: &[ISpec]) -> Option<ISpec> {
    // replaces the node by the sequence `new` (splice into the parent list)
    if path.is_empty() {
        return if new.len() == 1 { Some(new[0].clone()) } else { Some(ISpec::L(new.to_vec())) };
    }
    if let ISpec::L(v) = t {
        let mut v2 = v.clone();
        if path.len() == 1 {
            if path[0] >= v2.len() {
                return None;
            }
            v2.splice(path[0]..path[0] + 1, new.iter().cloned());
        } else {
            v2[path[0]] = replace_at(&v[path[0]], &path[1..], new)?;
        }
        Some(ISpec::L(v2))
    } else {
        None
    }
}

fn simpler_literals(x: &ISpec) -> Vec<ISpec> {
    match x {
        ISpec::Int(i) if *i != 0 && *i != 1 => vec![ISpec::Int(0), ISpec::Int(1), ISpec::Int(-1)],
        ISpec::F(b) if *b != 0 && *b != 1f32.to_bits() => vec![ISpec::F(0), ISpec::F(1f32.to_bits())],
        ISpec::BV(v) if !v.is_empty() => vec![ISpec::BV(vec![]), ISpec::BV(v[..v.len() / 2].to_vec())],
        ISpec::IV(v) if !v.is_empty() => vec![ISpec::IV(vec![]), ISpec::IV(v[..v.len() / 2].to_vec())],
        ISpec::FV(v) if !v.is_empty() => vec![ISpec::FV(vec![]), ISpec::FV(v[..v.len() / 2].to_vec())],
        _ => vec![],
    }
}

/// Shrinks a program (list of top-level items) while `test` holds.
pub fn shrink_program(prog: &[ISpec], test: &mut dyn FnMut(&[ISpec]) -> bool, budget: &mut usize) -> Vec<ISpec> {
    let mut cur = ISpec::L(prog.to_vec());
    let unwrap = |t: &ISpec| -> Vec<ISpec> {
        match t {
            ISpec::L(v) => v.clone(),
            x => vec![x.clone()],
        }
    };
    let mut progress = true;
    while progress && *budget > 0 {
        progress = false;
        let mut ps = vec![];
        paths(&cur, &mut vec![], &mut ps);
        // larger removals first: visit shallow paths first (pre-order already does)
        let mut i = 1; // skip the root
        while i < ps.len() && *budget > 0 {
            let p = ps[i].clone();
            let mut advanced = false;
            if let Some(c) = remove_at(&cur, &p) {
                *budget -= 1;
                if test(&unwrap(&c)) {
                    cur = c;
                    progress = true;
                    advanced = true;
                }
            }
            if !advanced {
                // unwrap a sub-list into its parent
                if let Some(ISpec::L(children)) = get_at(&cur, &p) {
                    let ch = children.clone();
                    if let Some(c) = replace_at(&cur, &p, &ch) {
                        *budget -= 1;
                        if test(&unwrap(&c)) {
                            cur = c;
                            progress = true;
                            advanced = true;
                        }
                    }
                }
            }
            if !advanced {
                if let Some(node) = get_at(&cur, &p) {
                    for s in simpler_literals(node) {
                        if let Some(c) = replace_at(&cur, &p, &[s]) {
                            if *budget == 0 {
                                break;
                            }
                            *budget -= 1;
                            if test(&unwrap(&c)) {
                                cur = c;
                                progress = true;
                                advanced = true;
                                break;
                            }
                        }
                    }
                }
            }
            if advanced {
                ps.clear();
                paths(&cur, &mut vec![], &mut ps);
            } else {
                i += 1;
            }
        }
    }
    unwrap(&cur)
}

pub fn shrink_vec<T: Clone>(v: &[T], set: &mut dyn FnMut(Vec<T>) -> bool, budget: &mut usize) -> Vec<T> {
    let mut cur = v.to_vec();
    if cur.is_empty() {
        return cur;
    }
    if *budget > 0 {
        *budget -= 1;
        if set(vec![]) {
            return vec![];
        }
    }
    let mut i = 0;
    while i < cur.len() && *budget > 0 {
        let mut c = cur.clone();
        c.remove(i);
        *budget -= 1;
        if set(c.clone()) {
            cur = c;
        } else {
            i += 1;
        }
    }
    cur
}

/// Minimises a world scenario. `fails(sc)` must return true when the scenario
/// still shows the violation being chased.
pub fn shrink_world(sc: &WorldSc, fails: &mut dyn FnMut(&WorldSc) -> bool) -> WorldSc {
    let mut best = sc.clone();
    let mut budget: usize = 4000;
    macro_rules! attempt {
        ($mutate:expr) => {{
            let mut cand = best.clone();
            #[allow(clippy::redundant_closure_call)]
            ($mutate)(&mut cand);
            if cand != best && budget > 0 {
                budget -= 1;
                if fails(&cand) {
                    best = cand;
                }
            }
        }};
    }
    // environment: drop faults one kind at a time
    attempt!(|c: &mut WorldSc| c.hosts.clear());
    attempt!(|c: &mut WorldSc| c.env.p_extreme = 0);
    attempt!(|c: &mut WorldSc| c.env.p_repeat = 0);
    attempt!(|c: &mut WorldSc| c.env.p_spawn_fail = 0);
    attempt!(|c: &mut WorldSc| c.env.slow = false);
    attempt!(|c: &mut WorldSc| c.env.stalls.clear());
    attempt!(|c: &mut WorldSc| c.env.map_salt = 0);
    attempt!(|c: &mut WorldSc| c.env.spawn_stdout = false);
    attempt!(|c: &mut WorldSc| c.via_parser = false);
    attempt!(|c: &mut WorldSc| c.cfg = ConfigSpec::default_cfg());
    {
        let hosts = best.hosts.clone();
        let b2 = best.clone();
        let r = shrink_vec(
            &hosts,
            &mut |h| {
                let mut c = b2.clone();
                c.hosts = h;
                fails(&c)
            },
            &mut budget,
        );
        best.hosts = r;
    }
    // program
    if let ProgSpec::Explicit(p) = &best.prog {
        let p = p.clone();
        let b2 = best.clone();
        let r = shrink_program(
            &p,
            &mut |cand| {
                let mut c = b2.clone();
                c.prog = ProgSpec::Explicit(cand.to_vec());
                fails(&c)
            },
            &mut budget,
        );
        best.prog = ProgSpec::Explicit(r.clone());
        best.program_text = render_program(&r);
    }
    // state, stack by stack
    macro_rules! shrink_field {
        ($field:ident) => {{
            let cur = best.state.$field.clone();
            let b2 = best.clone();
            let r = shrink_vec(
                &cur,
                &mut |v| {
                    let mut c = b2.clone();
                    c.state.$field = v;
                    fails(&c)
                },
                &mut budget,
            );
            best.state.$field = r;
        }};
    }
    shrink_field!(graphs);
    shrink_field!(bindings);
    shrink_field!(input);
    shrink_field!(output);
    shrink_field!(exec);
    shrink_field!(code);
    shrink_field!(names);
    shrink_field!(bools);
    shrink_field!(ints);
    shrink_field!(floats);
    shrink_field!(boolvecs);
    shrink_field!(intvecs);
    shrink_field!(floatvecs);
    shrink_field!(indices);
    attempt!(|c: &mut WorldSc| c.state.quote_name = false);
    attempt!(|c: &mut WorldSc| c.state.send_name = false);
    // inside the bound values and the remaining CODE / EXEC items
    for k in 0..best.state.bindings.len() {
        let val = vec![best.state.bindings[k].1.clone()];
        let b2 = best.clone();
        let r = shrink_program(
            &val,
            &mut |cand| {
                if cand.len() != 1 {
                    return false;
                }
                let mut c = b2.clone();
                c.state.bindings[k].1 = cand[0].clone();
                fails(&c)
            },
            &mut budget,
        );
        if r.len() == 1 {
            best.state.bindings[k].1 = r[0].clone();
        }
    }
    for k in 0..best.state.code.len() {
        let val = vec![best.state.code[k].clone()];
        let b2 = best.clone();
        let r = shrink_program(
            &val,
            &mut |cand| {
                if cand.len() != 1 {
                    return false;
                }
                let mut c = b2.clone();
                c.state.code[k] = cand[0].clone();
                fails(&c)
            },
            &mut budget,
        );
        if r.len() == 1 {
            best.state.code[k] = r[0].clone();
        }
    }
    // a second pass over the program after the state got smaller
    if let ProgSpec::Explicit(p) = &best.prog {
        let p = p.clone();
        let b2 = best.clone();
        let r = shrink_program(
            &p,
            &mut |cand| {
                let mut c = b2.clone();
                c.prog = ProgSpec::Explicit(cand.to_vec());
                fails(&c)
            },
            &mut budget,
        );
        best.prog = ProgSpec::Explicit(r.clone());
        best.program_text = render_program(&r);
    }
    best
}

use crate::engines::queues::{QueueSc};
use crate::engines::runloop::RunloopSc;

pub fn shrink_queues(sc: &QueueSc, fails: &mut dyn FnMut(&QueueSc) -> bool) -> QueueSc {
    let mut budget = 3000usize;
    match sc {
        QueueSc::Buffer(b) => {
            let mut best = b.clone();
            // cut the tail after the failing event first
            let ops = best.ops.clone();
            let mut lo = 0usize;
            let mut hi = ops.len();
            while lo < hi {
                let mid = (lo + hi) / 2;
                let mut c = best.clone();
                c.ops = ops[..mid].to_vec();
                if fails(&QueueSc::Buffer(c)) {
                    hi = mid;
                } else {
                    lo = mid + 1;
                }
            }
            best.ops = ops[..hi.min(ops.len())].to_vec();
            if !fails(&QueueSc::Buffer(best.clone())) {
                best.ops = ops;
            }
            let b2 = best.clone();
            let cur = best.ops.clone();
            best.ops = shrink_vec(
                &cur,
                &mut |v| {
                    let mut c = b2.clone();
                    c.ops = v;
                    fails(&QueueSc::Buffer(c))
                },
                &mut budget,
            );
            for cap in 1..best.capacity {
                let mut c = best.clone();
                c.capacity = cap;
                if fails(&QueueSc::Buffer(c.clone())) {
                    best = c;
                    break;
                }
            }
            if best.messages {
                let mut c = best.clone();
                c.messages = false;
                if fails(&QueueSc::Buffer(c.clone())) {
                    best = c;
                }
            }
            QueueSc::Buffer(best)
        }
        QueueSc::Io(io) => {
            let mut best = io.clone();
            {
                let b2 = best.clone();
                let cur = best.hosts.clone();
                best.hosts = shrink_vec(
                    &cur,
                    &mut |v| {
                        let mut c = b2.clone();
                        c.hosts = v;
                        fails(&QueueSc::Io(c))
                    },
                    &mut budget,
                );
            }
            {
                let b2 = best.clone();
                let p = best.prog.clone();
                let r = shrink_program(
                    &p,
                    &mut |cand| {
                        let mut c = b2.clone();
                        c.prog = cand.to_vec();
                        fails(&QueueSc::Io(c))
                    },
                    &mut budget,
                );
                best.program_text = render_program(&r);
                best.prog = r;
            }
            macro_rules! shrink_field {
                ($field:ident) => {{
                    let cur = best.state.$field.clone();
                    let b2 = best.clone();
                    let r = shrink_vec(
                        &cur,
                        &mut |v| {
                            let mut c = b2.clone();
                            c.state.$field = v;
                            fails(&QueueSc::Io(c))
                        },
                        &mut budget,
                    );
                    best.state.$field = r;
                }};
            }
            shrink_field!(bindings);
            shrink_field!(input);
            shrink_field!(output);
            shrink_field!(code);
            shrink_field!(names);
            shrink_field!(bools);
            shrink_field!(ints);
            shrink_field!(floats);
            shrink_field!(boolvecs);
            shrink_field!(intvecs);
            shrink_field!(floatvecs);
            shrink_field!(indices);
            QueueSc::Io(best)
        }
    }
}

pub fn shrink_runloop(sc: &RunloopSc, fails: &mut dyn FnMut(&RunloopSc) -> bool) -> RunloopSc {
    let mut best = sc.clone();
    let mut budget = 3000usize;
    macro_rules! attempt {
        ($mutate:expr) => {{
            let mut cand = best.clone();
            ($mutate)(&mut cand);
            if cand != best && budget > 0 {
                budget -= 1;
                if fails(&cand) {
                    best = cand;
                }
            }
        }};
    }
    attempt!(|c: &mut RunloopSc| c.env.slow = false);
    attempt!(|c: &mut RunloopSc| c.env.map_salt = 0);
    attempt!(|c: &mut RunloopSc| c.env.p_spawn_fail = 0);
    attempt!(|c: &mut RunloopSc| c.env.stalls.clear());
    attempt!(|c: &mut RunloopSc| c.via_parser = false);
    attempt!(|c: &mut RunloopSc| c.prelude.clear());
    attempt!(|c: &mut RunloopSc| c.empty_iset = false);
    {
        let b2 = best.clone();
        let p = best.prog.clone();
        let r = shrink_program(
            &p,
            &mut |cand| {
                let mut c = b2.clone();
                c.prog = cand.to_vec();
                fails(&c)
            },
            &mut budget,
        );
        best.program_text = render_program(&r);
        best.prog = r;
    }
    macro_rules! shrink_field {
        ($field:ident) => {{
            let cur = best.state.$field.clone();
            let b2 = best.clone();
            let r = shrink_vec(
                &cur,
                &mut |v| {
                    let mut c = b2.clone();
                    c.state.$field = v;
                    fails(&c)
                },
                &mut budget,
            );
            best.state.$field = r;
        }};
    }
    shrink_field!(bindings);
    shrink_field!(input);
    shrink_field!(output);
    shrink_field!(exec);
    shrink_field!(code);
    shrink_field!(names);
    shrink_field!(bools);
    shrink_field!(ints);
    shrink_field!(floats);
    shrink_field!(boolvecs);
    shrink_field!(intvecs);
    shrink_field!(floatvecs);
    shrink_field!(indices);
    attempt!(|c: &mut RunloopSc| c.state.quote_name = false);
    best
}
