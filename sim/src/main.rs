#![allow(dead_code)]
//! pushsim — deterministic simulation of pushr with fault injection.
//! See /verif/DESIGN.md. One binary, sub-commands:
//!   batch  <engine> --seed S --from A --to B --out FILE [--tier T]
//!   replay <file>
//!   names                       (prints the instruction registry)
mod alloc;
mod common;
mod engines;
mod gen;
mod minimise;
mod rng;
mod simenv;
mod spec;
mod statecode;

use common::*;
use serde_json::json;
use std::collections::{BTreeMap, HashSet};
use std::io::{Seek, SeekFrom, Write};

#[global_allocator]
static GLOBAL: alloc::Meter = alloc::Meter;

pub struct Args {
    pub pos: Vec<String>,
    pub opt: BTreeMap<String, String>,
}

fn parse_args() -> Args {
    let mut pos = vec![];
    let mut opt = BTreeMap::new();
    let mut it = std::env::args().skip(1);
    while let Some(a) = it.next() {
        if let Some(k) = a.strip_prefix("--") {
            let v = it.next().unwrap_or_default();
            opt.insert(k.to_string(), v);
        } else {
            pos.push(a);
        }
    }
    Args { pos, opt }
}

impl Args {
    pub fn u64(&self, k: &str, d: u64) -> u64 {
        self.opt.get(k).and_then(|v| v.parse().ok()).unwrap_or(d)
    }
    pub fn str(&self, k: &str, d: &str) -> String {
        self.opt.get(k).cloned().unwrap_or_else(|| d.to_string())
    }
}

/// Accumulates what a batch covered.
#[derive(Default)]
pub struct Agg {
    pub runs: u64,
    pub nontrivial: u64,
    pub events: u64,
    pub steps: u64,
    pub draws: u64,
    pub sim_us: u64,
    pub faults: BTreeMap<String, u64>,
    pub probes: BTreeMap<String, u64>,
    pub outcomes: BTreeMap<String, u64>,
    pub digests: HashSet<u64>,
    pub schedules: HashSet<u64>,
    pub counts: Vec<u64>,
    pub effective: Vec<u64>,
    pub left_envelope: u64,
    pub env_skips: u64,
    pub log_xor: u64,
    pub samples: Vec<serde_json::Value>,
    pub violations: Vec<serde_json::Value>,
}

impl Agg {
    pub fn add(&mut self, st: &RunStats) {
        self.runs += 1;
        self.events += st.events;
        self.steps += st.steps;
        self.draws += st.draws;
        self.sim_us = self.sim_us.saturating_add(st.clock_us);
        for (k, v) in &st.faults {
            *self.faults.entry(k.clone()).or_insert(0) += v;
        }
        for (k, v) in &st.probes {
            *self.probes.entry(k.clone()).or_insert(0) += v;
        }
        *self.outcomes.entry(st.outcome.clone()).or_insert(0) += 1;
        if st.nontrivial {
            self.nontrivial += 1;
            self.digests.insert(st.digest);
        }
        if st.schedule_hash != 0 {
            self.schedules.insert(st.schedule_hash);
        }
        if st.left_envelope {
            self.left_envelope += 1;
        }
        self.env_skips += st.env_skips;
        // order-independent fingerprint of all event logs of the batch
        self.log_xor ^= st.log_hash.wrapping_mul(0x9E37_79B9_7F4A_7C15).rotate_left(13);
    }
    pub fn add_counts(&mut self, c: &[u64]) {
        if self.counts.len() < c.len() {
            self.counts.resize(c.len(), 0);
        }
        for (i, v) in c.iter().enumerate() {
            self.counts[i] += v;
        }
    }
}

fn main() {
    let args = parse_args();
    install_panic_hook();
    let cmd = args.pos.get(0).cloned().unwrap_or_default();
    // pushr's Item clone / drop / size / Display recurse once per nesting level;
    // a fixed large stack makes the verdict independent of `ulimit -s`.
    let child = std::thread::Builder::new()
        .stack_size(1 << 30)
        .spawn(move || real_main(&cmd, &args))
        .expect("spawn worker thread");
    let code = child.join().unwrap_or(2);
    std::process::exit(code);
}

fn real_main(cmd: &str, args: &Args) -> i32 {
    match cmd {
        "names" => {
            let (_iset, names) = simenv::wrapped_set();
            let names = if args.opt.contains_key("op-subjects") { engines::envelope::op_subjects(&names) } else { names };
            for n in names {
                println!("{}", n);
            }
            0
        }
        "batch" => batch(args),
        "replay" => replay(args),
        "scenario" => scenario(args),
        "distinct" => distinct(args),
        "cli-cases" => cli_cases(args),
        "one" => one(args),
        "minimise" => minimise_cmd(args),
        _ => {
            eprintln!("usage: pushsim batch|replay|names ...");
            2
        }
    }
}

static RUN_STARTED_MS: std::sync::atomic::AtomicU64 = std::sync::atomic::AtomicU64::new(0);

/// In-process watchdog: a run that does not finish within the limit aborts the
/// worker (the supervisor reads the progress marker and classifies the run as
/// `watchdog`). Real time is used only to give up, never to decide a verdict.
fn start_watchdog(limit_s: u64) {
    let t0 = std::time::Instant::now();
    RUN_STARTED_MS.store(0, std::sync::atomic::Ordering::Relaxed);
    std::thread::spawn(move || loop {
        std::thread::sleep(std::time::Duration::from_millis(250));
        let started = RUN_STARTED_MS.load(std::sync::atomic::Ordering::Relaxed);
        if started == 0 {
            continue;
        }
        let now = t0.elapsed().as_millis() as u64 + 1;
        if now > started + limit_s * 1000 {
            eprintln!("WATCHDOG: run exceeded {} s", limit_s);
            std::process::exit(86);
        }
    });
    WATCHDOG_T0.with(|c| *c.borrow_mut() = Some(t0));
}

thread_local! {
    static WATCHDOG_T0: std::cell::RefCell<Option<std::time::Instant>> = std::cell::RefCell::new(None);
}

fn watchdog_mark_start() {
    WATCHDOG_T0.with(|c| {
        if let Some(t0) = *c.borrow() {
            RUN_STARTED_MS.store(t0.elapsed().as_millis() as u64 + 1, std::sync::atomic::Ordering::Relaxed);
        }
    });
}

fn batch(args: &Args) -> i32 {
    let engine = args.pos.get(1).cloned().unwrap_or_default();
    let seed = args.u64("seed", 1);
    let from = args.u64("from", 0);
    let to = args.u64("to", 100);
    let out = args.str("out", "/dev/null");
    let keep_samples = args.u64("samples", 3) as usize;
    alloc::set_limit(args.u64("mem-limit-mb", 1024) << 20);
    let mut cur = std::fs::File::create(format!("{}.cur", out)).expect("progress file");
    let mut agg = Agg::default();
    let mut per_key: BTreeMap<String, u32> = BTreeMap::new();
    let t0 = std::time::Instant::now();
    let mut ctx = engines::Ctx::new(args);
    start_watchdog(args.u64("run-timeout-s", 20));
    let mut trace: Option<std::fs::File> = None;
    let mut hashes: Option<std::fs::File> = if args.u64("hashes", 0) == 1 {
        Some(std::fs::File::create(format!("{}.hashes", out)).expect("hash file"))
    } else {
        None
    };
    let order: Vec<u64> = if args.u64("reverse", 0) == 1 { (from..to).rev().collect() } else { (from..to).collect() };
    for i in order {
        let _ = cur.seek(SeekFrom::Start(0));
        let _ = cur.write_all(format!("{:>20}\n", i).as_bytes());
        let run_seed = rng::derive_n(seed, &engine, i);
        ctx.cur_index = i;
        watchdog_mark_start();
        let res = engines::run_one(&engine, run_seed, &mut ctx);
        agg.add(&res.stats);
        agg.add_counts(&res.counts);
        if agg.effective.len() < res.effective.len() {
            agg.effective.resize(res.effective.len(), 0);
        }
        for (k, v) in res.effective.iter().enumerate() {
            agg.effective[k] += v;
        }
        if let Some(h) = hashes.as_mut() {
            let _ = writeln!(h, "{} {:016x} {:016x} {} {}", i, res.stats.log_hash, res.stats.digest, res.stats.outcome, res.violations.len());
        }
        if let Some(line) = &res.trace_line {
            if trace.is_none() {
                trace = Some(std::fs::File::create(format!("{}.trace", out)).expect("trace file"));
            }
            let _ = writeln!(trace.as_mut().unwrap(), "{} {}", i, line);
        }
        if agg.samples.len() < keep_samples && res.stats.nontrivial {
            agg.samples.push(json!({"index": i, "run_seed": run_seed, "case": res.sample, "outcome": res.stats.outcome,
                "faults": res.stats.faults, "events": res.stats.events}));
        }
        for (v, sc) in res.violations {
            // a few examples per site are enough (the first one is minimised and reported)
            let n = per_key.entry(v.key()).or_insert(0u32);
            *n += 1;
            if *n <= 3 {
                agg.violations.push(json!({"index": i, "run_seed": run_seed, "violation": v, "scenario": sc}));
            }
        }
    }
    RUN_STARTED_MS.store(0, std::sync::atomic::Ordering::Relaxed);
    let wall = t0.elapsed().as_secs_f64();
    let mut digests: Vec<u64> = agg.digests.iter().cloned().collect();
    digests.sort();
    let mut f = std::fs::File::create(format!("{}.digests", out)).expect("digest file");
    for d in &digests {
        let _ = f.write_all(&d.to_le_bytes());
    }
    let mut scheds: Vec<u64> = agg.schedules.iter().cloned().collect();
    scheds.sort();
    let mut f = std::fs::File::create(format!("{}.schedules", out)).expect("schedule file");
    for d in &scheds {
        let _ = f.write_all(&d.to_le_bytes());
    }
    let names = ctx.names.clone();
    let counts: BTreeMap<String, u64> = names
        .iter()
        .cloned()
        .zip(agg.counts.iter().cloned().chain(std::iter::repeat(0)))
        .collect();
    let summary = json!({
        "engine": engine, "seed": seed, "from": from, "to": to, "wall_s": wall,
        "runs": agg.runs, "nontrivial": agg.nontrivial, "events": agg.events, "steps": agg.steps,
        "draws": agg.draws, "sim_us": agg.sim_us, "faults": agg.faults, "probes": agg.probes,
        "outcomes": agg.outcomes, "distinct_local": digests.len(), "left_envelope": agg.left_envelope,
        "env_skips": agg.env_skips, "log_xor": agg.log_xor, "instr_counts": counts,
        "instr_effective": names.iter().cloned().zip(agg.effective.iter().cloned().chain(std::iter::repeat(0))).collect::<BTreeMap<String, u64>>(),
        "samples": agg.samples, "violations": agg.violations,
        "extra": ctx.extra_summary(),
    });
    std::fs::write(&out, serde_json::to_vec(&summary).unwrap()).expect("write summary");
    let _ = std::fs::remove_file(format!("{}.cur", out));
    0
}

fn replay(args: &Args) -> i32 {
    let path = args.pos.get(1).cloned().unwrap_or_default();
    let data = match std::fs::read(&path) {
        Ok(d) => d,
        Err(e) => {
            eprintln!("cannot read {}: {}", path, e);
            return 2;
        }
    };
    let v: serde_json::Value = match serde_json::from_slice(&data) {
        Ok(v) => v,
        Err(e) => {
            eprintln!("bad replay file {}: {}", path, e);
            return 2;
        }
    };
    alloc::set_limit(args.u64("mem-limit-mb", 1024) << 20);
    start_watchdog(args.u64("run-timeout-s", 120));
    watchdog_mark_start();
    let mut ctx = engines::Ctx::new(args);
    let engine = v["engine"].as_str().unwrap_or("").to_string();
    let got = engines::replay_one(&engine, &v["scenario"], &mut ctx);
    let want_key = v["expect"]["key"].as_str().unwrap_or("").to_string();
    let mut hit = false;
    for g in &got {
        println!("observed: {} :: {}", g.key(), g.detail);
        if g.key() == want_key {
            hit = true;
        }
    }
    if hit {
        println!(
            "VIOLATION property={} replay={}",
            v["property"].as_str().unwrap_or("?"),
            path
        );
        1
    } else if got.is_empty() {
        println!("replay {}: no violation observed (expected {})", path, want_key);
        0
    } else {
        println!("replay {}: different violation observed (expected {})", path, want_key);
        3
    }
}

/// Prints the scenario of run `index` without executing it.
fn scenario(args: &Args) -> i32 {
    let engine = args.pos.get(1).cloned().unwrap_or_default();
    let seed = args.u64("seed", 1);
    let index = args.u64("index", 0);
    let mut ctx = engines::Ctx::new(args);
    let run_seed = rng::derive_n(seed, &engine, index);
    ctx.cur_index = index;
    let sc = engines::scenario_of(&engine, run_seed, &mut ctx);
    println!("{}", serde_json::to_string(&json!({"engine": engine, "run_seed": run_seed, "index": index, "scenario": sc})).unwrap());
    0
}

/// Executes run `index` alone; with --trace FILE the instruction about to
/// execute is written to FILE before every event, so that the site of an abort
/// can be read off after the process died.
fn one(args: &Args) -> i32 {
    let engine = args.pos.get(1).cloned().unwrap_or_default();
    let seed = args.u64("seed", 1);
    let index = args.u64("index", 0);
    alloc::set_limit(args.u64("mem-limit-mb", 1024) << 20);
    let mut ctx = engines::Ctx::new(args);
    if let Some(t) = args.opt.get("trace") {
        simenv::set_trace(t);
    }
    start_watchdog(args.u64("run-timeout-s", 20));
    watchdog_mark_start();
    let run_seed = rng::derive_n(seed, &engine, index);
    ctx.cur_index = index;
    let res = engines::run_one(&engine, run_seed, &mut ctx);
    let vs: Vec<_> = res.violations.iter().map(|(v, _)| v.clone()).collect();
    let recs: Vec<_> = res.violations.iter().map(|(v, sc)| json!({"index": index, "run_seed": run_seed, "violation": v, "scenario": sc})).collect();
    println!("{}", serde_json::to_string(&json!({"stats": res.stats, "violations": vs, "records": recs})).unwrap());
    if vs.is_empty() { 0 } else { 1 }
}

fn minimise_cmd(args: &Args) -> i32 {
    let path = args.pos.get(1).cloned().unwrap_or_default();
    let out = args.str("out", &path);
    let data = std::fs::read(&path).expect("read replay file");
    let mut v: serde_json::Value = serde_json::from_slice(&data).expect("parse replay file");
    let engine = v["engine"].as_str().unwrap_or("").to_string();
    let key = v["expect"]["key"].as_str().unwrap_or("").to_string();
    let mut ctx = engines::Ctx::new(args);
    let before = v["scenario"].clone();
    let after = engines::minimise_one(&engine, &before, &key, &mut ctx);
    let size = |x: &serde_json::Value| serde_json::to_string(x).map(|s| s.len()).unwrap_or(0);
    v["minimised_from"] = json!({"scenario_bytes": size(&before), "to_bytes": size(&after)});
    v["scenario"] = after;
    std::fs::write(&out, serde_json::to_vec_pretty(&v).unwrap()).expect("write minimised");
    0
}

/// Counts distinct u64 values over all files `<dir>/*<suffix>` (sorted LE arrays).
fn distinct(args: &Args) -> i32 {
    let dir = args.pos.get(1).cloned().unwrap_or_default();
    let suffix = args.str("suffix", ".digests");
    let mut set: HashSet<u64> = HashSet::new();
    if let Ok(rd) = std::fs::read_dir(&dir) {
        for e in rd.flatten() {
            let p = e.path();
            if p.to_string_lossy().ends_with(&suffix) {
                if let Ok(data) = std::fs::read(&p) {
                    for c in data.chunks_exact(8) {
                        set.insert(u64::from_le_bytes(c.try_into().unwrap()));
                    }
                }
            }
        }
    }
    println!("{}", set.len());
    0
}

/// Prints JSON lines {"program", "expect": [EXEC, CODE, INT lines]} for the CLI clause of C14.
fn cli_cases(args: &Args) -> i32 {
    let seed = args.u64("seed", 1);
    let n = args.u64("count", 100);
    alloc::set_limit(1 << 30);
    let ctx = engines::Ctx::new(args);
    let mut made = 0u64;
    let mut i = 0u64;
    while made < n && i < n * 20 {
        let run_seed = rng::derive_n(seed, "cli", i);
        i += 1;
        if let Some((text, lines)) = engines::isolation::cli_case(run_seed, &ctx.names, &args.str("bin-path", "pushr")) {
            println!("{}", serde_json::to_string(&json!({"program": text, "expect": lines})).unwrap());
            made += 1;
        }
    }
    0
}
