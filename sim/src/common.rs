//! Shared result types, panic capture and violation identity.
use serde::{Deserialize, Serialize};
use std::cell::RefCell;
use std::collections::BTreeMap;
use std::panic::{self, AssertUnwindSafe};

#[derive(Serialize, Deserialize, Clone, Debug, PartialEq)]
pub struct Violation {
    pub property: String,
    /// panic | hang | oracle:<clause> | abort | watchdog
    pub class: String,
    /// instruction (or API entry) + normalised message; no line numbers
    pub site: String,
    pub detail: String,
    pub at_event: u64,
}

impl Violation {
    pub fn key(&self) -> String {
        format!("{}|{}|{}", self.property, self.class, self.site)
    }
}

#[derive(Serialize, Deserialize, Clone, Debug, Default)]
pub struct RunStats {
    pub events: u64,
    pub steps: u64,
    pub draws: u64,
    pub clock_us: u64,
    pub faults: BTreeMap<String, u64>,
    pub probes: BTreeMap<String, u64>,
    pub digest: u64,
    pub log_hash: u64,
    pub left_envelope: bool,
    pub env_skips: u64,
    pub outcome: String,
    pub nontrivial: bool,
    pub schedule_hash: u64,
}

#[derive(Clone, Debug)]
pub struct PanicInfo {
    pub msg: String,
    pub file: String,
    pub line: u32,
}

thread_local! {
    static LAST_PANIC: RefCell<Option<PanicInfo>> = RefCell::new(None);
}

pub fn install_panic_hook() {
    panic::set_hook(Box::new(|info| {
        let msg = if let Some(s) = info.payload().downcast_ref::<&str>() {
            s.to_string()
        } else if let Some(s) = info.payload().downcast_ref::<String>() {
            s.clone()
        } else {
            "<non-string panic payload>".to_string()
        };
        let (file, line) = info
            .location()
            .map(|l| (l.file().to_string(), l.line()))
            .unwrap_or(("<unknown>".to_string(), 0));
        LAST_PANIC.with(|p| *p.borrow_mut() = Some(PanicInfo { msg, file, line }));
    }));
}

/// Runs `f`, turning an unwind into the recorded panic information.
pub fn caught<R>(f: impl FnOnce() -> R) -> Result<R, PanicInfo> {
    LAST_PANIC.with(|p| *p.borrow_mut() = None);
    match panic::catch_unwind(AssertUnwindSafe(f)) {
        Ok(r) => Ok(r),
        Err(_) => Err(LAST_PANIC
            .with(|p| p.borrow_mut().take())
            .unwrap_or(PanicInfo {
                msg: "<panic without hook record>".to_string(),
                file: "<unknown>".to_string(),
                line: 0,
            })),
    }
}

/// Digits become '#', so that "the len is 3 but the index is 5" and its
/// siblings are one site; long messages are cut.
pub fn normalise_msg(m: &str) -> String {
    let mut out = String::new();
    let mut in_digits = false;
    for ch in m.chars() {
        if ch.is_ascii_digit() {
            if !in_digits {
                out.push('#');
            }
            in_digits = true;
        } else {
            in_digits = false;
            out.push(if ch == '\n' { ' ' } else { ch });
        }
        if out.len() >= 140 {
            break;
        }
    }
    out
}

/// Last path components of the panic location (line numbers move when hooks
/// are inserted, so they are not part of a site's identity).
pub fn normalise_file(f: &str) -> String {
    let parts: Vec<&str> = f.split('/').filter(|p| !p.is_empty()).collect();
    // a crate from the registry: "<crate>-<version>/src/..." without the version
    if let Some(i) = parts.iter().position(|p| *p == "registry") {
        if parts.len() > i + 3 {
            let krate = parts[i + 3];
            let name: String = krate
                .rsplit_once('-')
                .map(|(n, _)| n.to_string())
                .unwrap_or_else(|| krate.to_string());
            return format!("{}/{}", name, parts[i + 4..].join("/"));
        }
    }
    // the standard library: "/rustc/<hash>/library/core/src/..."
    if let Some(i) = parts.iter().position(|p| *p == "library") {
        return parts[i + 1..].join("/");
    }
    if let Some(i) = parts.iter().rposition(|p| *p == "src") {
        return parts[i..].join("/");
    }
    let n = parts.len();
    parts[n.saturating_sub(3)..].join("/")
}

pub fn panic_site(instr: &str, p: &PanicInfo) -> String {
    format!("{} @ {}: {}", instr, normalise_file(&p.file), normalise_msg(&p.msg))
}
