//! C17: the ring buffer and the INPUT / OUTPUT queues — pushr's transport to
//! "other modules". Two parties on a bounded lossy channel; the schedule is who
//! acts next. (a) actors over one real PushBuffer against a VecDeque model,
//! (b) host producer / consumer against an interpreter running INPUT.* and
//! OUTPUT.* programs under the real run(), judged over the recorded history.
use crate::common::*;
use crate::gen::*;
use crate::rng::{derive, Rng};
use crate::simenv::{self, EnvScript, Envelope, Hooks};
use crate::spec::*;
use pushr::push::buffer::{BufferType, PushBuffer};
use pushr::push::instructions::InstructionSet;
use pushr::push::interpreter::PushInterpreter;
use pushr::push::io::PushMessage;
use pushr::push::state::PushState;
use pushr::push::vector::{BoolVector, IntVector};
use serde::{Deserialize, Serialize};
use std::collections::VecDeque;

// ------------------------------------------------------------------ (a) buffer

#[derive(Serialize, Deserialize, Clone, Debug, PartialEq)]
pub enum BufOp {
    Push(i64),
    Force(i64),
    Pop,
    Flush,
    Inspect,
    /// get_mut(i) and overwrite the element with a fresh serial
    Poke(usize, i64),
}

#[derive(Serialize, Deserialize, Clone, Debug, PartialEq)]
pub struct BufSc {
    pub seed: u64,
    pub queue: bool,
    pub capacity: usize,
    /// elements are PushMessage (serial in the header) instead of i64
    pub messages: bool,
    pub ops: Vec<BufOp>,
}

pub fn generate_buf(seed: u64, max_cap: usize) -> BufSc {
    let mut r = Rng::new(derive(seed, "buf"));
    let capacity = 1 + r.below(max_cap as u64) as usize;
    let queue = r.chance(1, 2);
    // per-run actor weights (swarm): producer, forcing producer, consumer, inspector, flusher, poker
    let w: Vec<u32> = vec![
        1 + r.below(8) as u32,
        if r.chance(1, 3) { 0 } else { 1 + r.below(6) as u32 },
        1 + r.below(8) as u32,
        1 + r.below(4) as u32,
        if r.chance(1, 2) { 0 } else { 1 },
        if r.chance(1, 2) { 0 } else { 1 },
    ];
    let n = match r.below(4) {
        0 => r.range(1, 8) as usize,
        1..=2 => r.range(8, 60) as usize,
        _ => r.range(60, 200) as usize,
    };
    let mut serial = 0i64;
    let mut ops = vec![];
    let mut just_wrapped = false;
    let mut pushed = 0usize;
    while ops.len() < n {
        // fault bias: flush right after a wrap-around, bursts beyond capacity
        if just_wrapped && r.chance(1, 6) {
            ops.push(BufOp::Flush);
            just_wrapped = false;
            continue;
        }
        if r.chance(1, 12) {
            let k = 1 + r.below(2 * capacity as u64 + 2);
            let force = r.chance(1, 2);
            for _ in 0..k {
                serial += 1;
                ops.push(if force { BufOp::Force(serial) } else { BufOp::Push(serial) });
            }
            pushed += k as usize;
            just_wrapped = pushed > capacity;
            continue;
        }
        if r.chance(1, 14) {
            // consumer drains, then consumer stall
            for _ in 0..(1 + r.below(capacity as u64 + 2)) {
                ops.push(BufOp::Pop);
            }
            continue;
        }
        match r.weighted(&w) {
            0 => {
                serial += 1;
                pushed += 1;
                ops.push(BufOp::Push(serial));
            }
            1 => {
                serial += 1;
                pushed += 1;
                ops.push(BufOp::Force(serial));
            }
            2 => ops.push(BufOp::Pop),
            3 => ops.push(BufOp::Inspect),
            4 => ops.push(BufOp::Flush),
            _ => {
                serial += 1;
                ops.push(BufOp::Poke(r.below(capacity as u64 + 2) as usize, serial));
            }
        }
        just_wrapped = pushed > capacity && pushed % capacity.max(1) < 2;
    }
    BufSc {
        seed,
        queue,
        capacity,
        messages: r.chance(1, 4),
        ops,
    }
}

fn opname(op: &BufOp) -> &'static str {
    match op {
        BufOp::Push(_) => "push",
        BufOp::Force(_) => "push_force",
        BufOp::Pop => "pop",
        BufOp::Flush => "flush",
        BufOp::Inspect => "get/copy/peek",
        BufOp::Poke(..) => "get_mut",
    }
}

trait Elem: Clone + std::fmt::Display + Default + PartialEq + std::fmt::Debug {
    fn make(serial: i64) -> Self;
    fn serial(&self) -> i64;
    fn parse_printed(s: &str) -> Vec<i64>;
}

impl Elem for i64 {
    fn make(serial: i64) -> Self {
        serial
    }
    fn serial(&self) -> i64 {
        *self
    }
    fn parse_printed(s: &str) -> Vec<i64> {
        s.split_whitespace().map(|t| t.parse::<i64>().unwrap_or(-1)).collect()
    }
}

impl Elem for PushMessage {
    fn make(serial: i64) -> Self {
        PushMessage::new(
            IntVector::new(vec![serial as i32]),
            BoolVector::new(vec![serial % 2 == 0]),
        )
    }
    fn serial(&self) -> i64 {
        self.header.values.first().map(|v| *v as i64).unwrap_or(0)
    }
    fn parse_printed(s: &str) -> Vec<i64> {
        // "[serial]&[TRUE]" per element
        s.split_whitespace()
            .map(|t| {
                t.trim_start_matches('[')
                    .split(|c| c == ',' || c == ']')
                    .next()
                    .and_then(|x| x.parse::<i64>().ok())
                    .unwrap_or(0)
            })
            .collect()
    }
}

fn bviol(class: &str, site: &str, detail: String, ev: u64) -> Violation {
    Violation {
        property: "C17".into(),
        class: format!("oracle:{}", class),
        site: site.into(),
        detail,
        at_event: ev,
    }
}

pub struct BufResult {
    pub violations: Vec<Violation>,
    pub wraps: u64,
    pub drops: u64,
    pub overwrites: u64,
    pub ops: u64,
    pub hash: u64,
}

fn run_buf<T: Elem>(sc: &BufSc) -> BufResult {
    let kind = if sc.queue { BufferType::Queue } else { BufferType::Stack };
    let mut buf: PushBuffer<T> = PushBuffer::new(kind, sc.capacity);
    let mut model: VecDeque<i64> = VecDeque::new(); // oldest at the front
    let cap = sc.capacity;
    let mut res = BufResult {
        violations: vec![],
        wraps: 0,
        drops: 0,
        overwrites: 0,
        ops: 0,
        hash: 0xcbf2_9ce4_8422_2325,
    };
    let mut total_pushed = 0u64;
    let kname = if sc.queue { "queue" } else { "stack" };
    // position i -> model index (0 = oldest for a queue, newest for a stack)
    let at = |m: &VecDeque<i64>, i: usize| -> Option<i64> {
        if i >= m.len() {
            None
        } else if sc.queue {
            Some(m[i])
        } else {
            Some(m[m.len() - 1 - i])
        }
    };
    for (ev, op) in sc.ops.iter().enumerate() {
        let ev = ev as u64;
        res.ops += 1;
        let r = caught(|| {
            let mut vs: Vec<Violation> = vec![];
            match op {
                BufOp::Push(s) => {
                    if model.len() < cap {
                        model.push_back(*s);
                        total_pushed += 1;
                    } else {
                        res.drops += 1;
                    }
                    buf.push(T::make(*s));
                }
                BufOp::Force(s) => {
                    if model.len() == cap {
                        model.pop_front();
                        res.overwrites += 1;
                    }
                    model.push_back(*s);
                    total_pushed += 1;
                    buf.push_force(T::make(*s));
                }
                BufOp::Pop => {
                    let want = if sc.queue { model.pop_front() } else { model.pop_back() };
                    let got = buf.pop().map(|e| e.serial());
                    if got != want {
                        vs.push(bviol("pop", &format!("{} pop", kname), format!("pop returned {:?}, the bounded-sequence model {:?}", got, want), ev));
                    }
                }
                BufOp::Flush => {
                    model.clear();
                    buf.flush();
                }
                BufOp::Poke(i, s) => {
                    let want = at(&model, *i);
                    let got = buf.get_mut(*i).map(|e| {
                        let old = e.serial();
                        *e = T::make(*s);
                        old
                    });
                    if got != want {
                        vs.push(bviol("get_mut", &format!("{} get_mut", kname), format!("get_mut({}) saw {:?}, model {:?}", i, got, want), ev));
                    }
                    if want.is_some() {
                        let n = model.len();
                        let idx = if sc.queue { *i } else { n - 1 - *i };
                        model[idx] = *s;
                    }
                }
                BufOp::Inspect => {
                    // (beyond the live window too, up to the largest index there is)
                    let far = [usize::MAX - 1, usize::MAX, usize::MAX / 2 + 1, i32::MAX as usize, i32::MAX as usize + 1];
                    for i in (0..model.len() + 2).chain(far.iter().cloned()) {
                        let want = at(&model, i);
                        let g1 = buf.get(i).map(|e| e.serial());
                        let g2 = buf.copy(i).map(|e| e.serial());
                        if g1 != want || g2 != want {
                            vs.push(bviol("index", &format!("{} get/copy", kname), format!("get({})={:?} copy({})={:?}, model {:?} (live, oldest first: {:?})", i, g1, i, g2, want, model), ev));
                            break;
                        }
                    }
                    let oldest = model.front().cloned();
                    let newest = model.back().cloned();
                    let po = buf.peek_oldest().map(|e| e.serial());
                    let co = buf.copy_oldest().map(|e| e.serial());
                    let pn = buf.peek_newest().map(|e| e.serial());
                    if po != oldest || co != oldest {
                        vs.push(bviol("peek", &format!("{} peek_oldest/copy_oldest", kname), format!("peek_oldest={:?} copy_oldest={:?}, model {:?}", po, co, oldest), ev));
                    }
                    if pn != newest {
                        vs.push(bviol("peek", &format!("{} peek_newest", kname), format!("peek_newest={:?}, model {:?}", pn, newest), ev));
                    }
                }
            }
            // cross-invariants after every event
            if buf.size() != model.len() || buf.size() > cap {
                vs.push(bviol("size", &format!("{} size", kname), format!("size()={} capacity={} model={}", buf.size(), cap, model.len()), ev));
            }
            if buf.is_empty() != model.is_empty() || buf.is_full() != (model.len() == cap) || buf.capacity() != cap {
                vs.push(bviol("flags", &format!("{} is_empty/is_full/capacity", kname), format!("is_empty={} is_full={} capacity={} with {} of {} live", buf.is_empty(), buf.is_full(), buf.capacity(), model.len(), cap), ev));
            }
            let it: Vec<i64> = buf.iter().map(|e| e.serial()).collect();
            let fwd: Vec<i64> = model.iter().cloned().collect();
            let ok_iter = if sc.queue {
                it == fwd
            } else {
                // a stack may present its items oldest-first or newest-first
                it == fwd || it.iter().rev().cloned().collect::<Vec<_>>() == fwd
            };
            // the iterator's adaptors (nth, skip, step_by, last, count) must agree with stepping it
            if ok_iter && !it.is_empty() {
                let k = (ev as usize) % it.len();
                let nth = buf.iter().nth(k).map(|e| e.serial());
                let skipped: Vec<i64> = buf.iter().skip(k).map(|e| e.serial()).collect();
                let stepped: Vec<i64> = buf.iter().step_by(2).map(|e| e.serial()).collect();
                let last = buf.iter().last().map(|e| e.serial());
                let want_step: Vec<i64> = it.iter().cloned().step_by(2).collect();
                if nth != Some(it[k]) || skipped != it[k..] || stepped != want_step || last != it.last().cloned() || buf.iter().count() != it.len() {
                    vs.push(bviol("iter", &format!("{} iter adaptors", kname), format!("nth({})={:?} skip({})={:?} step_by(2)={:?} last={:?} count={}, plain iteration {:?}", k, nth, k, skipped, stepped, last, buf.iter().count(), it), ev));
                }
                let mut two = buf.iter();
                let first = two.next().map(|e| e.serial());
                let rest_nth = two.nth(0).map(|e| e.serial());
                if first != Some(it[0]) || rest_nth != it.get(1).cloned() {
                    vs.push(bviol("iter", &format!("{} iter adaptors", kname), format!("next() then nth(0) gave {:?}, {:?}; plain iteration {:?}", first, rest_nth, it), ev));
                }
            }
            if !ok_iter || buf.iter().len() != model.len() {
                vs.push(bviol("iter", &format!("{} iter", kname), format!("iteration saw {:?}, live items oldest first {:?}", it, fwd), ev));
            }
            let mut printed = T::parse_printed(&buf.to_string());
            let mut live = fwd.clone();
            printed.sort();
            live.sort();
            if printed != live {
                vs.push(bviol("print", &format!("{} to_string", kname), format!("to_string shows {:?}, live items {:?}", printed, live), ev));
            }
            vs
        });
        match r {
            Ok(vs) => {
                let stop = !vs.is_empty();
                res.violations.extend(vs);
                if stop {
                    break;
                }
            }
            Err(p) => {
                res.violations.push(Violation {
                    property: "C17".into(),
                    class: "panic".into(),
                    site: panic_site(&format!("{} {}", kname, opname(op)), &p),
                    detail: format!("{} at {}:{} during {:?}", p.msg, p.file, p.line, op),
                    at_event: ev,
                });
                break;
            }
        }
        res.hash ^= model.len() as u64 ^ (model.back().cloned().unwrap_or(0) as u64) << 8;
        res.hash = res.hash.wrapping_mul(0x0000_0100_0000_01B3);
    }
    res.wraps = total_pushed / cap.max(1) as u64;
    res
}

pub fn execute_buf(sc: &BufSc) -> BufResult {
    if sc.messages {
        run_buf::<PushMessage>(sc)
    } else {
        run_buf::<i64>(sc)
    }
}

// ------------------------------------------------------- (b) instruction level

#[derive(Serialize, Deserialize, Clone, Debug, PartialEq)]
pub enum HostOp {
    Produce { msg: MsgSpec, force: bool },
    Consume,
}

#[derive(Serialize, Deserialize, Clone, Debug, PartialEq)]
pub struct IoSc {
    pub seed: u64,
    pub cfg: ConfigSpec,
    pub state: StateSpec,
    pub prog: Vec<ISpec>,
    pub env: EnvScript,
    /// (instruction event index, host action)
    pub hosts: Vec<(u64, HostOp)>,
    pub program_text: String,
}

pub fn generate_io(seed: u64, instrs: &[String]) -> IoSc {
    let mut r = Rng::new(derive(seed, "io"));
    let mut ctx = GenCtx::new(instrs);
    ctx.exclude = super::runloop::excluded(instrs);
    let mut cfg = ConfigSpec::default_cfg();
    cfg.eval_push_limit = *r.pick(&[60, 200, 400]);
    let mut state = gen_state(&mut Rng::new(derive(seed, "state")), &mut ctx);
    state.graphs.clear();
    state.exec.clear();
    for x in state.ints.iter_mut() {
        if let IntSpec::NodeId { .. } = x {
            *x = IntSpec::V(3);
        }
    }
    // unique serials in the initial queues too
    for (k, m) in state.input.iter_mut().enumerate() {
        m.header = vec![100 + k as i32];
    }
    for (k, m) in state.output.iter_mut().enumerate() {
        m.header = vec![200 + k as i32];
    }
    let io: Vec<&String> = instrs
        .iter()
        .filter(|n| n.starts_with("INPUT.") || n.starts_with("OUTPUT."))
        .collect();
    let mut serial = 1000;
    let mut body = vec![];
    let n = 3 + r.below(14);
    for _ in 0..n {
        match r.below(10) {
            0..=4 => body.push(ISpec::I((*r.pick(&io)).clone())),
            5 => {
                body.push(ISpec::Int(gen_small_int(&mut r)));
                body.push(i("INPUT.GET"));
            }
            6..=7 => {
                serial += 1;
                body.push(ISpec::IV(vec![serial]));
                body.push(ISpec::BV(gen_boolvec(&mut r)));
                body.push(i("OUTPUT.WRITE"));
            }
            8 => body.push(i("INPUT.NEXT")),
            _ => body.push(ctx.instr(&mut r)),
        }
    }
    let prog = match r.below(4) {
        0 => vec![ISpec::L(body)],
        1 => vec![ISpec::L(vec![i("EXEC.Y"), ISpec::L(body)])],
        2 => vec![ISpec::L(vec![
            i("EXEC.Y"),
            ISpec::L(vec![i("INPUT.READ"), i("INPUT.NEXT"), i("OUTPUT.WRITE")]),
        ])],
        _ => vec![ISpec::L(vec![i("EXEC.Y"), ISpec::L(vec![i("INPUT.NEXT")])])],
    };
    let mut hosts = vec![];
    if !r.chance(1, 5) {
        let horizon = *r.pick(&[20u64, 60, 150]);
        let stop_at = if r.chance(1, 2) { horizon / 2 } else { horizon };
        let mut hserial = 5000;
        let nh = 1 + r.below(30);
        for _ in 0..nh {
            let at = r.below(horizon);
            match r.below(8) {
                0..=3 => {
                    if at < stop_at {
                        hserial += 1;
                        let mut m = gen_msg(&mut r, hserial);
                        m.header = vec![hserial];
                        if r.chance(1, 12) {
                            // a message without a header (the model compares whole messages)
                            m.header = vec![];
                            m.body = (0..(1 + hserial % 7)).map(|k| (hserial + k) % 3 == 0).collect();
                            if r.chance(1, 3) {
                                // a blank message (no header, no body) is a message like any other;
                                // sometimes two of them in a row
                                m.body = vec![];
                                if r.chance(1, 2) {
                                    hosts.push((at, HostOp::Produce { msg: m.clone(), force: false }));
                                }
                            }
                        }
                        hosts.push((at, HostOp::Produce { msg: m, force: false }));
                    }
                }
                4 => {
                    if at < stop_at {
                        hserial += 1;
                        let mut m = gen_msg(&mut r, hserial);
                        m.header = vec![hserial];
                        hosts.push((at, HostOp::Produce { msg: m, force: true }));
                    }
                }
                5 => {
                    // burst beyond the capacity of the INPUT queue
                    if at < stop_at {
                        let force = r.chance(1, 2);
                        for _ in 0..(8 + r.below(8)) {
                            hserial += 1;
                            hosts.push((at, HostOp::Produce { msg: MsgSpec { header: vec![hserial], body: gen_boolvec(&mut r) }, force }));
                        }
                    }
                }
                _ => hosts.push((at, HostOp::Consume)),
            }
        }
        hosts.sort_by_key(|h| h.0);
    }
    let mut env = EnvScript::quiet(seed);
    env.map_salt = if r.chance(1, 4) { r.next() | 1 } else { 0 };
    IoSc {
        seed,
        cfg,
        state,
        program_text: render_program(&prog),
        prog,
        env,
        hosts,
    }
}

struct IoHooks {
    hosts: Vec<(u64, HostOp)>,
    next: usize,
    input: VecDeque<MsgSpec>,
    output: VecDeque<MsgSpec>,
    in_cap: usize,
    out_cap: usize,
    // captured before the instruction
    pre_int: Option<i32>,
    pre_bv: Option<Vec<bool>>,
    pre_iv: Option<Vec<i32>>,
    pre_depths: (usize, usize, usize, usize),
    violations: Vec<Violation>,
    reads: u64,
    writes: u64,
    write_drops: u64,
    consumed: u64,
    nexts_since_produce: u64,
    drained_probe: u64,
    sched_hash: u64,
}

impl IoHooks {
    fn v(&mut self, class: &str, site: &str, detail: String, ev: u64) {
        if self.violations.len() < 4 {
            self.violations.push(bviol(class, site, detail, ev));
        }
    }
    fn cross_check(&mut self, st: &PushState, ev: u64, whence: &str) {
        let real_in: Vec<MsgSpec> = st.input_stack.iter().map(MsgSpec::from_msg).collect();
        let real_out: Vec<MsgSpec> = st.output_stack.iter().map(MsgSpec::from_msg).collect();
        let m_in: Vec<MsgSpec> = self.input.iter().cloned().collect();
        let m_out: Vec<MsgSpec> = self.output.iter().cloned().collect();
        if real_in != m_in {
            self.v("input-queue", &format!("INPUT queue after {}", whence), format!("real (oldest first) {:?}, model {:?}", heads(&real_in), heads(&m_in)), ev);
        }
        if real_out != m_out {
            self.v("output-queue", &format!("OUTPUT queue after {}", whence), format!("real (oldest first) {:?}, model {:?}", heads(&real_out), heads(&m_out)), ev);
        }
    }
}

fn heads(v: &[MsgSpec]) -> Vec<i32> {
    v.iter().map(|m| m.header.first().cloned().unwrap_or(0)).collect()
}

impl Hooks for IoHooks {
    fn pre(&mut self, ev: u64, name: &str, st: &mut PushState) -> bool {
        // the hosts act first (the scheduler gave them this boundary)
        while self.next < self.hosts.len() && self.hosts[self.next].0 <= ev {
            let op = self.hosts[self.next].1.clone();
            self.next += 1;
            match op {
                HostOp::Produce { msg, force } => {
                    self.sched_hash = self.sched_hash.wrapping_mul(31).wrapping_add(1 + force as u64);
                    self.nexts_since_produce = 0;
                    if force {
                        if self.input.len() == self.in_cap {
                            self.input.pop_front();
                            simenv::fault("queue_overwrite");
                        }
                        self.input.push_back(msg.clone());
                        st.input_stack.push_force(msg.to_msg());
                    } else {
                        if self.input.len() < self.in_cap {
                            self.input.push_back(msg.clone());
                        } else {
                            simenv::fault("queue_overrun");
                        }
                        st.input_stack.push(msg.to_msg());
                    }
                    if msg.body.is_empty() {
                        simenv::fault("empty_body_message");
                    }
                }
                HostOp::Consume => {
                    self.sched_hash = self.sched_hash.wrapping_mul(31).wrapping_add(3);
                    let want = self.output.pop_front();
                    let got = st.output_stack.pop().map(|m| MsgSpec::from_msg(&m));
                    if got.is_some() {
                        self.consumed += 1;
                    } else {
                        simenv::fault("consumer_found_empty");
                    }
                    if got != want {
                        self.v("consume", "host consumer pop of OUTPUT", format!("consumer received {:?}, the model queue delivers {:?}", got.as_ref().map(|m| m.header.clone()), want.as_ref().map(|m| m.header.clone())), ev);
                    }
                }
            }
            self.cross_check(st, ev, "host action");
        }
        self.sched_hash = self.sched_hash.wrapping_mul(31).wrapping_add(7);
        if name.starts_with("INPUT.") || name.starts_with("OUTPUT.") {
            self.pre_int = st.int_stack.get(0).cloned();
            self.pre_bv = st.bool_vector_stack.get(0).map(|v| v.values.clone());
            self.pre_iv = st.int_vector_stack.get(0).map(|v| v.values.clone());
            self.pre_depths = (st.bool_stack.size(), st.int_stack.size(), st.bool_vector_stack.size(), st.int_vector_stack.size());
        }
        true
    }

    fn post(&mut self, ev: u64, name: &str, st: &mut PushState) {
        let name = name.to_string();
        let (db, di, dbv, div) = self.pre_depths;
        match name.as_str() {
            "INPUT.AVAILABLE" => {
                let want = !self.input.is_empty();
                if st.bool_stack.size() != db + 1 || st.bool_stack.get(0) != Some(&want) {
                    self.v("instr", "INPUT.AVAILABLE", format!("pushed {:?}, model queue holds {} messages", st.bool_stack.get(0), self.input.len()), ev);
                }
            }
            "INPUT.STACKDEPTH" => {
                let want = self.input.len() as i32;
                if st.int_stack.size() != di + 1 || st.int_stack.get(0) != Some(&want) {
                    self.v("instr", "INPUT.STACKDEPTH", format!("pushed {:?}, model depth {}", st.int_stack.get(0), want), ev);
                }
            }
            "OUTPUT.STACKDEPTH" => {
                let want = self.output.len() as i32;
                if st.int_stack.size() != di + 1 || st.int_stack.get(0) != Some(&want) {
                    self.v("instr", "OUTPUT.STACKDEPTH", format!("pushed {:?}, model depth {}", st.int_stack.get(0), want), ev);
                }
            }
            "INPUT.READ" => {
                if let Some(front) = self.input.front().cloned() {
                    self.reads += 1;
                    let gb = st.bool_vector_stack.get(0).map(|v| v.values.clone());
                    let gh = st.int_vector_stack.get(0).map(|v| v.values.clone());
                    if st.bool_vector_stack.size() != dbv + 1 || st.int_vector_stack.size() != div + 1 || gb.as_ref() != Some(&front.body) || gh.as_ref() != Some(&front.header) {
                        self.v("fifo", "INPUT.READ", format!("read header {:?}, the oldest message of the model queue has header {:?} (queue {:?})", gh, front.header, heads(&self.input.iter().cloned().collect::<Vec<_>>())), ev);
                    }
                } else if st.bool_vector_stack.size() != dbv || st.int_vector_stack.size() != div {
                    self.v("fifo", "INPUT.READ", "pushed something although the model queue is empty".into(), ev);
                }
            }
            "INPUT.GET" => {
                if let (Some(idx), Some(front)) = (self.pre_int, self.input.front().cloned()) {
                    if front.body.is_empty() {
                        if st.bool_stack.size() != db {
                            self.v("fifo", "INPUT.GET", "pushed a bit although the oldest message has an empty body".into(), ev);
                        }
                    } else if idx >= 0 && (idx as usize) < front.body.len() {
                        let want = front.body[idx as usize];
                        if st.bool_stack.size() != db + 1 || st.bool_stack.get(0) != Some(&want) {
                            self.v("fifo", "INPUT.GET", format!("pushed {:?} for index {}, the oldest message {:?} has bit {} there", st.bool_stack.get(0), idx, front.header, want), ev);
                        }
                    } else {
                        // an index outside the body: the statement leaves open whether nothing happens or
                        // an in-type result is pushed (the tree clamps); if a bit is pushed it is a bit of
                        // the oldest message, and at most one
                        let pushed = st.bool_stack.size() as i64 - db as i64;
                        let ok = pushed == 0 || (pushed == 1 && st.bool_stack.get(0).map(|b| front.body.contains(b)).unwrap_or(false));
                        if !ok {
                            self.v("fifo", "INPUT.GET", format!("index {} outside the body of the oldest message {:?}: {} bits pushed, top {:?}", idx, front.header, pushed, st.bool_stack.get(0)), ev);
                        }
                    }
                } else if st.bool_stack.size() != db {
                    self.v("fifo", "INPUT.GET", "pushed a bit without an index or without a message".into(), ev);
                }
            }
            "INPUT.NEXT" => {
                self.input.pop_front();
                self.nexts_since_produce += 1;
                if self.nexts_since_produce >= self.in_cap as u64 {
                    // bounded liveness: once the producer stopped, capacity-many
                    // INPUT.NEXT events drain the queue
                    self.drained_probe += 1;
                    if st.input_stack.size() != 0 {
                        self.v("liveness", "INPUT.NEXT", format!("{} INPUT.NEXT events after the last producer action and the queue still holds {} messages", self.nexts_since_produce, st.input_stack.size()), ev);
                    }
                }
            }
            "OUTPUT.WRITE" => {
                if self.pre_bv.is_some() && self.pre_iv.is_some() {
                    // a message is made of both operands: taking one and leaving the other pairs the
                    // remaining one with a foreign partner later (messages out of program order)
                    let took_b = dbv - st.bool_vector_stack.size().min(dbv);
                    let took_i = div - st.int_vector_stack.size().min(div);
                    if took_b != took_i {
                        self.v("instr", "OUTPUT.WRITE", format!("consumed {} BOOLVECTOR and {} INTVECTOR operand(s) with both present (queue held {} of {})", took_b, took_i, self.output.len(), self.out_cap), ev);
                    }
                }
                if let (Some(body), Some(header)) = (self.pre_bv.clone(), self.pre_iv.clone()) {
                    if self.output.len() < self.out_cap {
                        self.output.push_back(MsgSpec { header, body });
                        self.writes += 1;
                    } else {
                        self.write_drops += 1;
                        simenv::fault("consumer_stall_write_dropped");
                    }
                }
            }
            "OUTPUT.FLUSH" => self.output.clear(),
            _ => {}
        }
        if name.starts_with("INPUT.") || name.starts_with("OUTPUT.") {
            self.cross_check(st, ev, &name);
        }
    }

    fn as_any(&mut self) -> &mut dyn std::any::Any {
        self
    }
}

pub struct IoResult {
    pub violations: Vec<Violation>,
    pub stats: RunStats,
}

pub fn execute_io(sc: &IoSc, iset: &mut InstructionSet, names: &[String]) -> IoResult {
    let mut st = sc.state.build(&sc.cfg);
    let hooks = IoHooks {
        hosts: sc.hosts.clone(),
        next: 0,
        input: st.input_stack.iter().map(MsgSpec::from_msg).collect(),
        output: st.output_stack.iter().map(MsgSpec::from_msg).collect(),
        // the published bounds, not whatever the state was built with
        in_cap: pushr::push::state::INPUT_BUFFER_SIZE,
        out_cap: pushr::push::state::OUTPUT_BUFFER_SIZE,
        pre_int: None,
        pre_bv: None,
        pre_iv: None,
        pre_depths: (0, 0, 0, 0),
        violations: vec![],
        reads: 0,
        writes: 0,
        write_drops: 0,
        consumed: 0,
        nexts_since_produce: 0,
        drained_probe: 0,
        sched_hash: 1,
    };
    let mut env = Envelope::standard();
    env.e_events = 600;
    simenv::begin(&sc.env, env, names, Some(Box::new(hooks)));
    load_program(&mut st, iset, &sc.prog, false);
    let res = caught(|| format!("{:?}", PushInterpreter::run(&mut st, iset)));
    let mut core = simenv::end();
    let mut violations = vec![];
    let mut stats = RunStats {
        events: core.events,
        clock_us: core.clock_us,
        log_hash: core.log_hash,
        ..Default::default()
    };
    if let Some(mut h) = core.hooks.take() {
        if let Some(h) = h.as_any().downcast_mut::<IoHooks>() {
            // what run() does when it returns (for whatever reason) is part of the run: the queues
            // still hold what the instructions and the hosts left there
            if res.is_ok() && !core.left_envelope {
                h.cross_check(&st, core.events, "the return of run()");
            }
            violations.append(&mut h.violations);
            stats.probes.insert("input_reads".into(), h.reads);
            stats.probes.insert("output_writes".into(), h.writes);
            stats.probes.insert("output_write_drops".into(), h.write_drops);
            stats.probes.insert("consumed".into(), h.consumed);
            stats.probes.insert("drained_after_producer_stopped".into(), h.drained_probe);
            stats.schedule_hash = h.sched_hash;
            stats.nontrivial = h.reads + h.writes + h.consumed > 0;
        }
    }
    match res {
        Ok(o) => stats.outcome = o,
        Err(p) => {
            let instr = core
                .cur_instr
                .map(|i| core.names[i].clone())
                .unwrap_or_else(|| "<step>".into());
            if instr.starts_with("INPUT.") || instr.starts_with("OUTPUT.") {
                violations.push(Violation {
                    property: "C17".into(),
                    class: "panic".into(),
                    site: panic_site(&instr, &p),
                    detail: format!("{} at {}:{}", p.msg, p.file, p.line),
                    at_event: core.events,
                });
            }
            stats.outcome = "panic".into();
        }
    }
    for (k, v) in &core.faults {
        stats.faults.insert(k.to_string(), *v);
    }
    stats.digest = crate::statecode::digest(&st) ^ stats.schedule_hash;
    IoResult { violations, stats }
}

// ---------------------------------------------------------------- scenarios

#[derive(Serialize, Deserialize, Clone, Debug, PartialEq)]
pub enum QueueSc {
    Buffer(BufSc),
    Io(IoSc),
}

pub fn generate(seed: u64, instrs: &[String], thorough: bool) -> QueueSc {
    if seed % 4 == 0 {
        QueueSc::Io(generate_io(seed, instrs))
    } else {
        QueueSc::Buffer(generate_buf(seed, if thorough { 33 } else { 8 }))
    }
}

pub fn execute(sc: &QueueSc, iset: &mut InstructionSet, names: &[String]) -> (Vec<Violation>, RunStats, serde_json::Value) {
    match sc {
        QueueSc::Buffer(b) => {
            let r = execute_buf(b);
            let mut stats = RunStats {
                events: r.ops,
                digest: r.hash,
                log_hash: r.hash,
                nontrivial: r.ops > 0,
                outcome: format!("buffer-{}", if b.queue { "queue" } else { "stack" }),
                schedule_hash: r.hash | 1,
                ..Default::default()
            };
            if r.drops > 0 {
                stats.faults.insert("queue_overrun".into(), r.drops);
            }
            if r.overwrites > 0 {
                stats.faults.insert("queue_overwrite".into(), r.overwrites);
            }
            if r.wraps >= 2 {
                stats.probes.insert("buffer_wrapped_twice".into(), 1);
            }
            if b.ops.iter().any(|o| *o == BufOp::Flush) {
                stats.faults.insert("queue_flush_midstream".into(), 1);
            }
            let sample = serde_json::json!({"kind": if b.queue {"queue"} else {"stack"}, "capacity": b.capacity, "messages": b.messages,
                "ops": b.ops.iter().take(24).map(|o| format!("{:?}", o)).collect::<Vec<_>>(), "n_ops": b.ops.len()});
            (r.violations, stats, sample)
        }
        QueueSc::Io(io) => {
            let r = execute_io(io, iset, names);
            let sample = serde_json::json!({"program": io.program_text.chars().take(240).collect::<String>(),
                "host_actions": io.hosts.iter().take(12).map(|(at, op)| match op {
                    HostOp::Produce{msg, force} => format!("@{} produce{} {:?}", at, if *force {"!"} else {""}, msg.header),
                    HostOp::Consume => format!("@{} consume", at)}).collect::<Vec<_>>(),
                "n_host_actions": io.hosts.len(), "initial_input": io.state.input.len()});
            (r.violations, r.stats, sample)
        }
    }
}

/// Bounded sweep: index -> (kind, capacity 1..3, operation sequence of length <= 7
/// over {push, forced push, pop, flush, inspect}). 6 * sum_{l<=7} 5^l sequences.
pub const ENUM_PER_SHAPE: u64 = 97_656; // (5^8 - 1) / 4

pub fn enumerate(index: u64) -> QueueSc {
    let shape = (index / ENUM_PER_SHAPE) % 6;
    let mut k = index % ENUM_PER_SHAPE;
    let mut len = 0u32;
    let mut block = 1u64;
    while k >= block {
        k -= block;
        block *= 5;
        len += 1;
    }
    let mut ops = vec![];
    let mut serial = 0;
    for _ in 0..len {
        let d = k % 5;
        k /= 5;
        ops.push(match d {
            0 => {
                serial += 1;
                BufOp::Push(serial)
            }
            1 => {
                serial += 1;
                BufOp::Force(serial)
            }
            2 => BufOp::Pop,
            3 => BufOp::Flush,
            _ => BufOp::Inspect,
        });
    }
    QueueSc::Buffer(BufSc {
        seed: index,
        queue: shape % 2 == 0,
        capacity: 1 + (shape / 2) as usize,
        messages: false,
        ops,
    })
}
