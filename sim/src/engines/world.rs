//! C01: the whole embedding under simulation. Real parser, interpreter,
//! instructions, code generator and queues; simulated clock, entropy, process
//! spawner, host actors on the queues and map iteration order.
use crate::common::*;
use crate::gen::*;
use crate::rng::{derive, Rng};
use crate::simenv::{self, EnvScript, Envelope, Hooks};
use crate::spec::*;
use crate::statecode;
use pushr::push::instructions::InstructionSet;
use pushr::push::interpreter::{PushInterpreter, PushInterpreterState};
use pushr::push::random::CodeGenerator;
use pushr::push::state::PushState;
use serde::{Deserialize, Serialize};

#[derive(Serialize, Deserialize, Clone, Debug, PartialEq)]
pub enum ProgSpec {
    Explicit(Vec<ISpec>),
    /// pushr's own generator, run on the simulated entropy over the full registry
    RandomCode { points: usize },
}

#[derive(Serialize, Deserialize, Clone, Debug, PartialEq)]
pub enum Mode {
    Run,
    Step { max_steps: u64 },
    /// single-stepping with a caller-supplied instruction cache that is not the set's own
    /// (step() takes any cache): 0 = empty list, 1 = names the set does not know mixed in
    StepForeignCache { max_steps: u64, kind: u8 },
}

#[derive(Serialize, Deserialize, Clone, Debug, PartialEq)]
pub enum HostOp {
    Produce { msg: MsgSpec, force: bool },
    Consume,
    FlushInput,
}

#[derive(Serialize, Deserialize, Clone, Debug, PartialEq)]
pub struct WorldSc {
    pub seed: u64,
    pub cfg: ConfigSpec,
    pub state: StateSpec,
    pub prog: ProgSpec,
    pub via_parser: bool,
    pub mode: Mode,
    pub env: EnvScript,
    /// entropy words discarded before the run (keeps the stream aligned when a
    /// generated program has been made explicit)
    pub entropy_skip: u64,
    /// (instruction event index, action) — the host side of the queues
    pub hosts: Vec<(u64, HostOp)>,
    pub program_text: String,
}

pub fn generate(seed: u64, instrs: &[String]) -> WorldSc {
    let mut r = Rng::new(derive(seed, "world"));
    let mut ctx = GenCtx::new(instrs);
    ctx.api_literals = true;
    // swarm: per-run focus on a handful of instructions
    if r.chance(2, 3) {
        for _ in 0..(1 + r.below(4)) {
            ctx.focus.push(r.pick(instrs).clone());
        }
    }
    let cfg = gen_config(&mut Rng::new(derive(seed, "cfg")));
    let state = gen_state(&mut Rng::new(derive(seed, "state")), &mut ctx);
    let mut pr = Rng::new(derive(seed, "prog"));
    let prog = match pr.below(3) {
        0 => ProgSpec::RandomCode {
            points: match pr.below(4) {
                0 => 1 + pr.below(4) as usize,
                1..=2 => 5 + pr.below(60) as usize,
                _ => 60 + pr.below(140) as usize,
            },
        },
        1 => ProgSpec::Explicit(grammar_program(&mut pr, &ctx)),
        _ => ProgSpec::Explicit(family_program(&mut pr, &ctx)),
    };
    let mode = match r.below(8) {
        0..=3 => Mode::Run,
        4..=6 => Mode::Step {
            max_steps: *r.pick(&[50u64, 300, 1500]),
        },
        _ => Mode::StepForeignCache {
            max_steps: *r.pick(&[50u64, 300]),
            kind: r.below(2) as u8,
        },
    };
    // fault subset (swarm): about a third of the runs are fault free
    let mut env = EnvScript::quiet(seed);
    let mut hosts = vec![];
    if !r.chance(1, 3) {
        let mut f = Rng::new(derive(seed, "faults"));
        if f.chance(1, 2) {
            env.p_extreme = *f.pick(&[5u32, 50, 300]);
        }
        if f.chance(1, 3) {
            env.p_repeat = *f.pick(&[10u32, 100]);
        }
        if f.chance(1, 2) {
            env.p_spawn_fail = *f.pick(&[200u32, 500, 1000]);
        }
        env.spawn_stdout = f.chance(1, 4);
        if f.chance(1, 4) {
            env.slow = true;
        }
        if f.chance(1, 3) {
            let at = match f.below(3) {
                0 => 0,
                1 => f.below(10),
                _ => f.below(200),
            };
            env.stalls.push((at, *f.pick(&[1_000u64, 60_000, 6_000_000])));
        }
        if f.chance(1, 2) {
            env.map_salt = f.next() | 1;
        }
        if f.chance(1, 2) {
            let n = 1 + f.below(12);
            let burst = f.chance(1, 3);
            let base = f.below(60);
            for k in 0..n {
                let at = if burst { base } else { f.below(150) };
                let op = match f.below(6) {
                    0..=2 => HostOp::Produce {
                        msg: gen_msg(&mut f, 5000 + k as i32),
                        force: false,
                    },
                    3 => HostOp::Produce {
                        msg: gen_msg(&mut f, 6000 + k as i32),
                        force: true,
                    },
                    4 => HostOp::Consume,
                    _ => HostOp::FlushInput,
                };
                hosts.push((at, op));
            }
            hosts.sort_by_key(|h| h.0);
        }
    }
    env.draw_budget = 2_000_000;
    let program_text = match &prog {
        ProgSpec::Explicit(p) => render_program(p),
        ProgSpec::RandomCode { points } => format!("<random code, {} points>", points),
    };
    WorldSc {
        seed,
        cfg,
        state,
        prog,
        via_parser: r.chance(1, 2),
        mode,
        env,
        entropy_skip: 0,
        hosts,
        program_text,
    }
}

struct WorldHooks {
    hosts: Vec<(u64, HostOp)>,
    next: usize,
    consumed: u64,
}

impl Hooks for WorldHooks {
    fn pre(&mut self, ev: u64, _name: &str, st: &mut PushState) -> bool {
        while self.next < self.hosts.len() && self.hosts[self.next].0 <= ev {
            match &self.hosts[self.next].1 {
                HostOp::Produce { msg, force } => {
                    if *force {
                        if st.input_stack.is_full() {
                            simenv::fault("queue_overwrite");
                        }
                        st.input_stack.push_force(msg.to_msg());
                    } else {
                        if st.input_stack.is_full() {
                            simenv::fault("queue_overrun");
                        }
                        st.input_stack.push(msg.to_msg());
                    }
                    if msg.body.is_empty() {
                        simenv::fault("empty_body_message");
                    }
                }
                HostOp::Consume => {
                    if st.output_stack.pop().is_some() {
                        self.consumed += 1;
                    }
                }
                HostOp::FlushInput => {
                    st.input_stack.flush();
                    simenv::fault("queue_flush_midstream");
                }
            }
            self.next += 1;
        }
        true
    }
    fn as_any(&mut self) -> &mut dyn std::any::Any {
        self
    }
}

pub struct Executed {
    pub violations: Vec<Violation>,
    pub stats: RunStats,
    pub counts: Vec<u64>,
    pub effective: Vec<u64>,
    /// the program that actually ran, explicit (for minimisation)
    pub explicit_prog: Vec<ISpec>,
    pub draws_before_run: u64,
}

/// Executes one scenario against the real code. `iset`/`names` is a wrapped
/// instruction set (see simenv::wrapped_set).
pub fn execute(sc: &WorldSc, iset: &mut InstructionSet, names: &[String], envelope: Envelope) -> Executed {
    let hooks = WorldHooks {
        hosts: sc.hosts.clone(),
        next: 0,
        consumed: 0,
    };
    let mut env = sc.env.clone();
    // the budget is per run; words skipped for alignment do not count
    env.draw_budget = env.draw_budget.saturating_add(sc.entropy_skip);
    simenv::begin(&env, envelope, names, Some(Box::new(hooks)));
    for _ in 0..sc.entropy_skip {
        use pushr::push::verif_seam::rand_shim::RngCore;
        let _ = pushr::push::verif_seam::rand_shim::thread_rng().next_u64();
    }
    let mut violations = vec![];
    let mut st = sc.state.build(&sc.cfg);
    let mut explicit_prog: Vec<ISpec> = vec![];
    let mut steps = 0u64;
    let mut outcome = String::new();
    let mut draws_before_run = sc.entropy_skip;

    // 1. the program
    let prog_ok = match &sc.prog {
        ProgSpec::Explicit(p) => {
            explicit_prog = p.clone();
            let res = caught(|| load_program(&mut st, iset, p, sc.via_parser));
            if let Err(p) = res {
                // the parser crashing on text the harness rendered is C03's
                // matter; fall back to trees and go on
                let _ = p;
                st = sc.state.build(&sc.cfg);
                load_program(&mut st, iset, &explicit_prog, false);
            }
            true
        }
        ProgSpec::RandomCode { points } => {
            let cache = iset.cache();
            let pts = *points;
            let res = caught(|| CodeGenerator::random_code_with_size(&st, &cache, pts));
            draws_before_run = simenv::with(|s| s.draws);
            match res {
                Ok(item) => {
                    explicit_prog = vec![ISpec::from_item(&item)];
                    st.exec_stack.push(item);
                    true
                }
                Err(p) => {
                    violations.push(classify_panic("C01", "<api:random_code_with_size>", &p, 0));
                    false
                }
            }
        }
    };

    // 2. execution
    if prog_ok {
        let before_events = simenv::with(|s| s.events);
        let res = match sc.mode {
            Mode::Run => caught(|| {
                let o = PushInterpreter::run(&mut st, iset);
                format!("{:?}", o)
            }),
            Mode::Step { max_steps } | Mode::StepForeignCache { max_steps, .. } => caught(|| {
                PushInterpreter::copy_to_code_stack(&mut st);
                let cache = match sc.mode {
                    Mode::StepForeignCache { kind: 0, .. } => pushr::push::instructions::InstructionCache::new(vec![]),
                    Mode::StepForeignCache { .. } => {
                        let mut l = iset.cache().list;
                        l.sort();
                        l.truncate(40);
                        l.push("NOT.REGISTERED".to_string());
                        l.push("ALSO.MISSING".to_string());
                        pushr::push::instructions::InstructionCache::new(l)
                    }
                    _ => iset.cache(),
                };
                let mut done = false;
                while steps < max_steps {
                    if PushInterpreter::step(&mut st, iset, &cache) {
                        done = true;
                        break;
                    }
                    steps += 1;
                }
                if done {
                    "StepDone".to_string()
                } else {
                    "StepBudget".to_string()
                }
            }),
        };
        match res {
            Ok(o) => {
                outcome = o;
                // a step on an empty EXEC must report completion
                if outcome == "NoErrors" && st.exec_stack.size() != 0 {
                    violations.push(Violation {
                        property: "C01".into(),
                        class: "oracle:run-outcome".into(),
                        site: "run".into(),
                        detail: "NoErrors with non-empty EXEC".into(),
                        at_event: simenv::with(|s| s.events),
                    });
                }
            }
            Err(p) => {
                let (instr, ev) = simenv::with(|s| {
                    (
                        s.cur_instr
                            .map(|i| s.names[i].clone())
                            .unwrap_or_else(|| "<step>".to_string()),
                        s.events,
                    )
                });
                violations.push(classify_panic("C01", &instr, &p, ev));
                outcome = "panic".into();
            }
        }
        let _ = before_events;
    }

    // 3. the state must still be encodable and printable (Display recurses)
    let digest = if violations.is_empty() {
        match caught(|| {
            let d = statecode::digest(&st);
            let _ = st.to_string();
            d
        }) {
            Ok(d) => d,
            Err(p) => {
                violations.push(classify_panic("C01", "<display>", &p, 0));
                0
            }
        }
    } else {
        0
    };
    let core = simenv::end();
    let mut stats = RunStats {
        events: core.events,
        steps,
        draws: core.draws,
        clock_us: core.clock_us,
        digest,
        log_hash: core.log_hash,
        left_envelope: core.left_envelope,
        env_skips: core.env_skips,
        outcome,
        nontrivial: core.events > 0,
        ..Default::default()
    };
    for (k, v) in &core.faults {
        stats.faults.insert(k.to_string(), *v);
    }
    for (k, v) in &core.probes {
        stats.probes.insert(k.to_string(), *v);
    }
    if core.sleeps > 0 {
        stats.probes.insert("exec_cmd_slept".into(), core.sleeps);
    }
    match stats.outcome.as_str() {
        "TimeLimitExceeded" => {
            stats.probes.insert("time_limit_returned".into(), 1);
        }
        "StepLimitExceeded" => {
            stats.probes.insert("step_limit_returned".into(), 1);
        }
        "GrowthCapExceeded" => {
            stats.probes.insert("growth_cap_returned".into(), 1);
        }
        _ => {}
    }
    if core.left_envelope {
        stats.probes.insert("left_envelope".into(), 1);
    }
    let _ = PushInterpreterState::NoErrors;
    Executed {
        violations,
        stats,
        counts: core.counts,
        effective: core.effective,
        explicit_prog,
        draws_before_run,
    }
}

pub fn classify_panic(prop: &str, instr: &str, p: &PanicInfo, ev: u64) -> Violation {
    if p.msg.contains(simenv::BUDGET_PANIC) {
        Violation {
            property: prop.into(),
            class: "hang".into(),
            site: format!("{}: entropy draws exceed the per-run budget", instr),
            detail: "the instruction kept drawing random words without terminating".into(),
            at_event: ev,
        }
    } else {
        Violation {
            property: prop.into(),
            class: "panic".into(),
            site: panic_site(instr, p),
            detail: format!("{} at {}:{}", p.msg, p.file, p.line),
            at_event: ev,
        }
    }
}
