//! C15: a step's cost is bounded by the state, not by operand magnitude. The
//! simulator ingredient is the resource seam: a deterministic byte / call meter
//! (the harness allocator), simulated sleep, entropy draw counts, plus process
//! supervision for the aborts a failed allocation causes.
//!   (a) operand sweep: every registered instruction x operand magnitudes
//!   (b) code growth: doubling / wrapping programs under run() with default limits
use crate::alloc;
use crate::common::*;
use crate::gen::*;
use crate::rng::{derive, Rng};
use crate::simenv::{self, EnvScript, Envelope, Hooks};
use crate::spec::*;
use crate::statecode;
use pushr::push::instructions::InstructionSet;
use pushr::push::interpreter::PushInterpreter;
use pushr::push::item::Item;
use pushr::push::state::PushState;
use serde::{Deserialize, Serialize};

pub const A_BYTES: u64 = 64 << 10;
pub const B_FACTOR: u64 = 64;

#[derive(Serialize, Deserialize, Clone, Debug, PartialEq)]
pub struct OpSc {
    pub seed: u64,
    pub instr: String,
    /// how the top INTEGER / FLOAT items are derived from the magnitude m:
    /// 0 => m, 1 => -m, 2 => small value, 3 => m/2
    pub int_layout: Vec<u8>,
    pub float_layout: Vec<u8>,
    pub small_ints: Vec<i32>,
    pub state: StateSpec,
    pub magnitudes: Vec<i64>,
    pub env_seed: u64,
}

pub fn generate_op(seed: u64, instr: &str, thorough: bool) -> OpSc {
    let mut r = Rng::new(derive(seed, "envelope-op"));
    let names: Vec<String> = vec![];
    let mut ctx = GenCtx::new(&names);
    let mut st = StateSpec::default();
    // small everything: <= 16 elements anywhere
    for _ in 0..3 {
        st.bools.push(r.chance(1, 2));
        st.names.push(r.pick(NAME_POOL).to_string());
    }
    for _ in 0..3 {
        let n = 1 + r.below(8) as usize;
        st.boolvecs.push((0..n).map(|_| r.chance(1, 2)).collect());
        st.intvecs.push((0..n).map(|_| r.range(-5, 12) as i32).collect());
        st.floatvecs.push((0..n).map(|_| ((r.unit() * 4.0 - 2.0) as f32).to_bits()).collect());
    }
    for _ in 0..4 {
        st.code.push(ISpec::L(vec![ISpec::Int(1), ISpec::N("x".into()), ISpec::L(vec![ISpec::B(true), ISpec::F(0)])]));
    }
    st.exec.push(ISpec::L(vec![ISpec::Int(2), i("NOOP")]));
    st.exec.push(ISpec::L(vec![i("NOOP")]));
    st.exec.push(ISpec::Int(3));
    st.indices.push((0, 3));
    st.input.push(gen_msg(&mut r, 1));
    st.graphs.push(gen_graph(&mut r));
    st.bindings.push(("x".into(), ISpec::Int(1)));
    ctx.bound.push("x".into());
    let int_layout: Vec<u8> = (0..5).map(|_| r.weighted(&[5, 2, 3, 1]) as u8).collect();
    let float_layout: Vec<u8> = (0..4).map(|_| r.weighted(&[4, 2, 3, 1]) as u8).collect();
    let small_ints: Vec<i32> = (0..5).map(|_| r.range(-3, 12) as i32).collect();
    let mut magnitudes = vec![100, 1_000, 10_000, 100_000, 1_000_000];
    if thorough {
        magnitudes.extend([10_000_000, 100_000_000]);
    }
    // offenders never get here (the ascent stops at the first excess)
    magnitudes.push(i32::MAX as i64);
    // pseudo-magnitude: non-finite / extreme floats and i32::MIN, also inside code items
    magnitudes.push(NONFINITE);
    OpSc {
        seed,
        instr: instr.to_string(),
        int_layout,
        float_layout,
        small_ints,
        state: st,
        magnitudes,
        env_seed: derive(seed, "env"),
    }
}

/// Steps that execute something other than an instruction: a name in every binding shape
/// (unbound, bound, alias chains and rings, quoted), a list, a literal. Named "@...".
pub const PSEUDO_SUBJECTS: &[&str] = &[
    "@name:unbound", "@name:bound", "@name:alias-chain", "@name:ring-of-1", "@name:ring-of-2", "@name:ring-of-3", "@name:quoted", "@name:bound-to-instruction",
    "@list", "@literal",
];

/// What the envelope-op engine steps: every registered instruction, then the pseudo subjects.
pub fn op_subjects(names: &[String]) -> Vec<String> {
    let mut v = names.to_vec();
    v.extend(PSEUDO_SUBJECTS.iter().map(|s| s.to_string()));
    v
}

/// Puts the subject of the measured step on top of EXEC (with the bindings it needs).
fn push_subject(st: &mut PushState, subject: &str, m: i32, big: usize) {
    let q = |k: usize| format!("q{}", k);
    match subject {
        "@name:unbound" => st.exec_stack.push(Item::id("q-unbound".to_string())),
        "@name:bound" => {
            st.name_bindings.insert(q(0), Item::list(vec![Item::int(m), Item::id(q(0))]));
            st.exec_stack.push(Item::id(q(0)));
        }
        "@name:bound-to-instruction" => {
            st.name_bindings.insert(q(0), Item::instruction("INTEGER.+".to_string()));
            st.exec_stack.push(Item::id(q(0)));
        }
        "@name:alias-chain" => {
            let n = 3 + big / 100;
            for k in 0..n {
                st.name_bindings.insert(q(k), Item::id(q(k + 1)));
            }
            st.name_bindings.insert(q(n), Item::int(m));
            st.exec_stack.push(Item::id(q(0)));
        }
        "@name:ring-of-1" | "@name:ring-of-2" | "@name:ring-of-3" => {
            let n = subject.as_bytes()[subject.len() - 1] as usize - b'0' as usize;
            for k in 0..n {
                st.name_bindings.insert(q(k), Item::id(q((k + 1) % n)));
            }
            st.exec_stack.push(Item::id(q(0)));
        }
        "@name:quoted" => {
            st.name_bindings.insert(q(0), Item::id(q(0)));
            st.quote_name = true;
            st.exec_stack.push(Item::id(q(0)));
        }
        "@list" => st.exec_stack.push(Item::list(vec![Item::int(m), Item::list(vec![Item::id(q(0)), Item::float(m as f32)]), Item::instruction("NOOP".to_string()), Item::list(vec![])])),
        "@literal" => st.exec_stack.push(Item::int(m)),
        _ => st.exec_stack.push(Item::instruction(subject.to_string())),
    }
}

pub const NONFINITE: i64 = -1;
/// Wall-clock limit of the state-size probe: every instruction of the unchanged tree needs at most
/// ~20 ms on the largest probe state (10^5 elements) in the optimised-dev build; a reading above
/// the limit is repeated up to three times and the fastest one counts.
pub const BIG_WALL_MS: u64 = 250;

fn special_float(k: usize) -> f32 {
    [f32::INFINITY, f32::NEG_INFINITY, f32::NAN, f32::MAX, f32::MIN, f32::MIN_POSITIVE][k % 6]
}

fn operand(layout: u8, m: i64, small: i32) -> i32 {
    match layout {
        0 => m as i32,
        1 => (-m) as i32,
        2 => small,
        _ => (m / 2) as i32,
    }
}

#[derive(Clone, Debug, Default)]
pub struct Cost {
    pub bytes: u64,
    pub calls: u64,
    pub draws: u64,
    pub slept_us: u64,
    pub wall_ms: u64,
    pub wall_us: u64,
    pub statebytes: u64,
}

/// One step of `instr` with operands of magnitude m; deterministic cost.
fn measure(sc: &OpSc, m: i64, iset: &mut InstructionSet) -> Result<Cost, (PanicInfo, u64)> {
    measure_sized(sc, m, 0, iset)
}

/// The only real-time reading of this engine must not be fooled by a stalled machine (a
/// descheduled or frozen VM): a reading above the limit is repeated, the fastest one counts.
fn measure_steady(sc: &OpSc, m: i64, big: usize, iset: &mut InstructionSet) -> Result<Cost, (PanicInfo, u64)> {
    let limit = if big > 0 { BIG_WALL_MS } else { 1_000 };
    let mut best = measure_sized(sc, m, big, iset);
    for _ in 0..1 {
        let wall = match &best {
            Ok(c) => c.wall_ms,
            Err((_, w)) => *w,
        };
        if wall <= limit {
            break;
        }
        let again = measure_sized(sc, m, big, iset);
        let wall2 = match &again {
            Ok(c) => c.wall_ms,
            Err((_, w)) => *w,
        };
        if wall2 < wall {
            best = again;
        }
    }
    best
}

/// `big` > 0: the top NAME, the top vectors and the top CODE / EXEC items hold about `big`
/// characters / elements / a tenth as many points (state-size scaling instead of operand scaling).
fn measure_sized(sc: &OpSc, m: i64, big: usize, iset: &mut InstructionSet) -> Result<Cost, (PanicInfo, u64)> {
    let mut cfg = ConfigSpec::default_cfg();
    if sc.seed % 3 == 0 {
        // the ranges of random numbers are values too, not size limits: in a third of the layouts
        // the configuration carries the magnitude (the limits proper stay at their defaults)
        let (hi, lo) = if m == NONFINITE { (i32::MAX, i32::MIN) } else { (m as i32, (m as i32).wrapping_neg()) };
        cfg.max_random_integer = hi;
        cfg.min_random_integer = lo;
        cfg.max_random_float = (if m == NONFINITE { f32::MAX } else { m as f32 }).to_bits();
        cfg.min_random_float = (if m == NONFINITE { f32::MIN } else { -(m as f32) }).to_bits();
    }
    let mut env = EnvScript::quiet(sc.env_seed);
    env.draw_budget = u64::MAX;
    // begin first: the state's graphs take their node ids from the simulated counter
    simenv::begin(&env, Envelope::off(), &[], None);
    let mut st = sc.state.build(&cfg);
    if sc.seed % 5 == 1 {
        // the binding table every program starts with under the command-line front end: BIN alone
        let keys: Vec<String> = st.name_bindings.iter().map(|(k, _)| k.clone()).collect();
        for k in keys {
            st.name_bindings.remove(&k);
        }
        st.name_bindings.insert("BIN".to_string(), Item::id("/usr/local/bin/pushr".to_string()));
    }
    let mi = if m == NONFINITE { i32::MIN as i64 } else { m };
    for (k, l) in sc.int_layout.iter().enumerate() {
        st.int_stack.push(operand(*l, mi, sc.small_ints[k % sc.small_ints.len()]));
    }
    for (k, l) in sc.float_layout.iter().enumerate() {
        let v = operand(*l, mi, sc.small_ints[k % sc.small_ints.len()]);
        st.float_stack.push(if *l == 2 {
            v as f32 / 16.0
        } else if m == NONFINITE {
            special_float(k + sc.seed as usize)
        } else {
            v as f32
        });
    }
    // operands also live inside code: literals of the same magnitude in CODE / EXEC items
    // (printing, comparing and searching code must not depend on their values either)
    let lit_f = if m == NONFINITE { special_float(sc.seed as usize / 7) } else { m as f32 * 1.5 };
    let lit = Item::list(vec![Item::int(mi as i32), Item::float(lit_f), Item::list(vec![Item::float(-lit_f)])]);
    st.code_stack.push(lit.clone());
    st.code_stack.push(Item::float(lit_f));
    st.exec_stack.push(lit.clone());
    st.exec_stack.push(lit);
    st.float_vector_stack.push(pushr::push::vector::FloatVector::new(vec![lit_f, 1.0, -lit_f]));
    // ... and inside vectors (ids, states, stack ids: instructions read numbers from there too)
    st.int_vector_stack.push(pushr::push::vector::IntVector::new(vec![mi as i32, (mi as i32).wrapping_neg(), 3]));
    st.int_vector_stack.push(pushr::push::vector::IntVector::new(vec![1, mi as i32]));
    if big > 0 {
        let unit = ["ab", "é", "x y", "日本"][(sc.seed % 4) as usize];
        let mut name = String::with_capacity(big + 8);
        while name.len() < big {
            name.push_str(unit);
        }
        st.name_stack.push(name.clone());
        st.name_stack.push(name);
        st.int_vector_stack.push(pushr::push::vector::IntVector::new((0..big as i32).map(|k| k % 97).collect()));
        // (few distinct values: an operation per occurrence of a value shows its true cost)
        st.int_vector_stack.push(pushr::push::vector::IntVector::new((0..big as i32).map(|k| k % 3).collect()));
        st.float_vector_stack.push(pushr::push::vector::FloatVector::new((0..big).map(|k| (k % 31) as f32).collect()));
        st.float_vector_stack.push(pushr::push::vector::FloatVector::new((0..big).map(|k| (k % 29) as f32).collect()));
        st.bool_vector_stack.push(pushr::push::vector::BoolVector::new((0..big).map(|k| k % 3 == 0).collect()));
        st.bool_vector_stack.push(pushr::push::vector::BoolVector::new((0..big).map(|k| k % 5 == 0).collect()));
        let flat = |salt: i32| Item::list((0..(big / 10) as i32).map(|k| Item::int(k ^ salt)).collect());
        // vector literals inside code (printing / comparing code walks them)
        let veclits = |salt: i32| {
            Item::list(vec![
                Item::floatvec(pushr::push::vector::FloatVector::new((0..big / 10).map(|k| (k as i32 ^ salt) as f32 * 0.5).collect())),
                Item::intvec(pushr::push::vector::IntVector::new((0..(big / 10) as i32).map(|k| k ^ salt).collect())),
                Item::boolvec(pushr::push::vector::BoolVector::new((0..big / 10).map(|k| k % 2 == 0).collect())),
            ])
        };
        st.code_stack.push(veclits(1));
        st.code_stack.push(veclits(2));
        st.code_stack.push(flat(1));
        st.code_stack.push(flat(2));
        if sc.seed % 8 == 0 {
            st.code_stack.push(veclits(3));
            st.code_stack.push(veclits(4));
        }
        st.exec_stack.push(flat(3));
        st.exec_stack.push(flat(4));
        // deep stacks, many bindings, a larger graph, a deeply nested item, full queues
        let n10 = big / 10;
        for k in 0..n10 {
            st.int_stack.push((k % 13) as i32);
            st.float_stack.push((k % 7) as f32);
            st.bool_stack.push(k % 2 == 0);
            st.name_stack.push(format!("n{}", k % 50));
        }
        for k in 0..(big / 100) {
            st.name_bindings.insert(format!("b{}", k), Item::int(k as i32));
            st.index_stack.push(pushr::push::index::Index { current: 0, destination: k });
        }
        {
            let mut g = pushr::push::graph::Graph::new();
            let ids: Vec<usize> = (0..(big / 100).max(2)).map(|k| g.add_node((k % 5) as i32)).collect();
            for w in ids.windows(2) {
                g.add_edge(w[0], w[1], 0.5);
                g.add_edge(w[1], ids[0], 0.25);
            }
            let g2 = g.clone();
            st.graph_stack.push(g2);
            st.graph_stack.push(g);
            st.int_vector_stack.push(pushr::push::vector::IntVector::new(ids.iter().take(50).map(|x| *x as i32).collect()));
        }
        {
            let mut deep = Item::int(1);
            // (printing nests a string per level: keep the depth moderate, it is not what is scaled here)
            for _ in 0..(big / 1000).min(200) {
                deep = Item::list(vec![Item::int(2), deep]);
            }
            st.code_stack.push(deep.clone());
            st.code_stack.push(deep);
        }
        while !st.input_stack.is_full() {
            st.input_stack.push(pushr::push::io::PushMessage::new(
                pushr::push::vector::IntVector::new(vec![1; 64]),
                pushr::push::vector::BoolVector::new(vec![true; 64]),
            ));
        }
        // the big low-cardinality vectors on top of their stacks again
        st.int_vector_stack.push(pushr::push::vector::IntVector::new((0..big as i32).map(|k| (k % 8 == 7) as i32).collect()));
        st.float_vector_stack.push(pushr::push::vector::FloatVector::new((0..big).map(|k| (k % 8 == 7) as i32 as f32).collect()));
        // the big names on top of the NAME stack again
        {
            let unit = ["ab", "é", "x y", "日本"][(sc.seed % 4) as usize];
            let mut name = String::with_capacity(big + 8);
            while name.len() < big {
                name.push_str(unit);
            }
            st.name_stack.push(name.clone());
            st.name_stack.push(name);
        }
        // small scalar operands on top again (the top INTEGER is the frequent vector value)
        for k in 0..4 {
            st.int_stack.push(sc.small_ints[k % sc.small_ints.len()]);
            st.float_stack.push(0.5 + k as f32);
        }
        st.int_stack.push(if (sc.seed / 4) % 4 == 3 { 1 } else { 0 });
        st.float_stack.push(if (sc.seed / 4) % 4 == 3 { 1.0 } else { 0.0 });
    }
    if sc.instr == "EXEC.CMD" {
        // an argument count the NAME stack can serve, so that the spawn is reached
        st.int_stack.push((sc.seed % 3) as i32);
    }
    push_subject(&mut st, &sc.instr, mi as i32, big);
    let statebytes = statecode::statecode(&st).len() as u64;
    // (the magnitude goes into the trace: if this step kills the process the supervisor knows where)
    simenv::trace_note_at(&sc.instr, if m == NONFINITE { 0 } else { m as u64 });
    let cache = iset.cache();
    let before = alloc::snapshot();
    let t0 = std::time::Instant::now();
    let r = caught(|| {
        PushInterpreter::step(&mut st, iset, &cache);
    });
    let wall_us = t0.elapsed().as_micros() as u64;
    let wall_ms = wall_us / 1000;
    let after = alloc::snapshot();
    let core = simenv::end();
    drop(st);
    match r {
        Ok(()) => Ok(Cost {
            bytes: after.total - before.total,
            calls: after.calls - before.calls,
            draws: core.draws,
            slept_us: core.slept_us,
            wall_ms,
            wall_us,
            statebytes,
        }),
        Err(p) => Err((p, wall_ms)),
    }
}

pub struct OpResult {
    pub violations: Vec<Violation>,
    pub stats: RunStats,
    pub worst_ratio_milli: u64,
}

fn growth_class(c_hi: u64, c_lo: u64) -> &'static str {
    // exponent of the cost between two magnitudes a factor 10 apart
    let r = c_hi as f64 / (c_lo.max(1)) as f64;
    if r < 3.0 {
        "is large whatever the operand"
    } else if r < 31.0 {
        "grows ~linearly with the operand magnitude"
    } else if r < 310.0 {
        "grows ~quadratically with the operand magnitude"
    } else {
        "grows faster than quadratically with the operand magnitude"
    }
}

pub fn execute_op(sc: &OpSc, iset: &mut InstructionSet) -> OpResult {
    let mut stats = RunStats::default();
    let mut vs = vec![];
    let mut worst = 0u64;
    let mut prev: Option<Cost> = None;
    let mut mags: Vec<i64> = vec![10];
    mags.extend(sc.magnitudes.iter().cloned());
    for m in mags {
        stats.steps += 1;
        // measured twice, the cheaper reading counts: one-time lazy initialisation
        // (thread-locals, formatting tables) is not a cost of the step
        let first = measure_steady(sc, m, 0, iset);
        let second = match &first {
            Ok(c) if c.bytes <= A_BYTES / 4 && c.wall_ms < 100 => measure(sc, m, iset),
            _ => Err((PanicInfo { msg: String::new(), file: String::new(), line: 0 }, 0)),
        };
        let best = match (first, second) {
            (Ok(a), Ok(b)) => Ok(if b.bytes < a.bytes { b } else { a }),
            (a, _) => a,
        };
        match best {
            Err((_p, wall_ms)) => {
                // a crashing step is C01's matter; one that crashes after seconds of work is also ours
                stats.outcome = "panic".into();
                if wall_ms > 1_000 {
                    vs.push(Violation {
                        property: "C15".into(),
                        class: "oracle:operand-cost".into(),
                        site: format!("{}: one step runs for seconds before it fails", sc.instr),
                        detail: format!("{} with operands of magnitude {}: {} ms of wall clock, then a panic", sc.instr, if m == NONFINITE { "non-finite/extreme".to_string() } else { m.to_string() }, wall_ms),
                        at_event: m as u64,
                    });
                    stats.outcome = "excess".into();
                }
                break;
            }
            Ok(c) => {
                let bound = A_BYTES + B_FACTOR * c.statebytes;
                let ratio = c.bytes * 1000 / bound.max(1);
                worst = worst.max(ratio);
                stats.draws += c.draws;
                stats.clock_us += c.slept_us;
                // blocking: simulated sleeps and waits inside one step (EXEC.CMD's documented one-second
                // pause is within it; waiting for a child to end is waiting for something nothing bounds)
                if c.slept_us > 10_000_000 {
                    vs.push(Violation {
                        property: "C15".into(),
                        class: "oracle:blocking".into(),
                        site: format!("{}: one step blocks for longer than ten simulated seconds", sc.instr),
                        detail: format!("{} blocked for {} simulated microseconds within one step (sleeps and waits on the clock / process seam)", sc.instr, c.slept_us),
                        at_event: m as u64,
                    });
                    stats.outcome = "excess".into();
                    break;
                }
                let draw_bound = 64 + 64 * c.statebytes;
                let mut excess: Option<(&str, u64, u64, u64)> = None;
                if c.bytes > bound {
                    excess = Some(("bytes allocated", c.bytes, bound, prev.as_ref().map(|p| p.bytes).unwrap_or(0)));
                } else if c.calls > bound / 16 {
                    excess = Some(("allocator calls", c.calls, bound / 16, prev.as_ref().map(|p| p.calls).unwrap_or(0)));
                } else if c.draws > draw_bound {
                    excess = Some(("entropy words drawn", c.draws, draw_bound, prev.as_ref().map(|p| p.draws).unwrap_or(0)));
                } else if c.wall_ms > 1_000 {
                    excess = Some(("milliseconds of wall clock (no allocation)", c.wall_ms, 1_000, prev.as_ref().map(|p| p.wall_ms).unwrap_or(0)));
                }
                if let Some((what, got, lim, before)) = excess {
                    let class = if what.starts_with("milliseconds") { "takes seconds for some operand values" } else { growth_class(got, before) };
                    vs.push(Violation {
                        property: "C15".into(),
                        class: "oracle:operand-cost".into(),
                        // the site names the instruction and the kind of excess, not the growth rate: a rate read
                        // off two magnitudes changes with every allocation detail and is not what identifies the finding
                        site: if what.starts_with("milliseconds") {
                            format!("{}: one step {}", sc.instr, class)
                        } else if class.starts_with("is large") {
                            format!("{}: the cost of one step {}", sc.instr, class)
                        } else {
                            format!("{}: the cost of one step grows with the operand magnitude", sc.instr)
                        },
                        detail: format!("{} with operands of magnitude {}: {} {} (bound {} = 64 KiB + 64 x {} state bytes; {} at the previous magnitude: {})", sc.instr, if m == NONFINITE { "non-finite/extreme".to_string() } else { m.to_string() }, got, what, lim, c.statebytes, before, class),
                        at_event: m as u64,
                    });
                    stats.outcome = "excess".into();
                    break;
                }
                prev = Some(c);
            }
        }
    }
    // state-size scaling (a quarter of the layouts): "a modest function of the current state size".
    // Bytes are judged against the bound at three sizes. Time is judged as a *ratio*: the same step
    // on a state four times larger may take about four times as long; a step that takes nine times
    // as long or more (and at least 200 ms) grows at least quadratically. The ratio does not
    // depend on the speed of the machine; every reading is the fastest of several.
    if stats.outcome.is_empty() && sc.seed % 4 == 0 {
        let fastest = |big: usize, iset: &mut InstructionSet, reps: usize| -> (Option<Cost>, u64) {
            let mut best: (Option<Cost>, u64) = (None, u64::MAX);
            for _ in 0..reps {
                let (c, us) = match measure_sized(sc, 100, big, iset) {
                    Ok(c) => {
                        let us = c.wall_us;
                        (Some(c), us)
                    }
                    Err((_p, w)) => (None, w * 1000),
                };
                if us < best.1 {
                    best = (c, us);
                }
                if us < 2_000 {
                    break; // far below anything that matters
                }
            }
            best
        };
        let mut t_quarter = 0u64;
        for big in [1_000usize, 50_000, 200_000] {
            stats.steps += 1;
            let (cost, mut us) = fastest(big, iset, 3);
            if big == 50_000 {
                t_quarter = us;
            }
            let mut slow = big == 200_000 && us >= 200_000 && us > 9 * t_quarter.max(500);
            if slow {
                // doubt first: both readings again, more often
                let (_, q2) = fastest(50_000, iset, 5);
                let (_, u2) = fastest(200_000, iset, 5);
                t_quarter = t_quarter.min(q2);
                us = us.min(u2);
                slow = us >= 200_000 && us > 9 * t_quarter.max(500);
            }
            let bytes_over = cost.as_ref().map(|c| c.bytes > A_BYTES + B_FACTOR * c.statebytes).unwrap_or(false);
            if slow || bytes_over {
                let c = cost.unwrap_or_default();
                vs.push(Violation {
                    property: "C15".into(),
                    class: "oracle:state-cost".into(),
                    site: format!("{}: the cost of one step grows faster than the state it works on", sc.instr),
                    detail: if slow {
                        format!("{} on a state whose top name / vectors hold {} characters / elements takes {} us, on a state a quarter of that size {} us (ratio {:.1}; linear would be 4)", sc.instr, big, us, t_quarter, us as f64 / t_quarter.max(1) as f64)
                    } else {
                        format!("{} on a state whose top name / vectors hold {} characters / elements (code items {} points): {} bytes allocated for {} state bytes (bound 64 KiB + 64 x state bytes)", sc.instr, big, big / 10, c.bytes, c.statebytes)
                    },
                    at_event: big as u64,
                });
                stats.outcome = "excess".into();
                break;
            }
        }
    }
    if stats.outcome.is_empty() {
        // (c) retention: memory still allocated after the state is gone must not grow with the
        // history of operands (a memo table that is never emptied, a log that is never cut).
        // Rounds of steps with operands no earlier round used; every state is dropped; the live
        // byte count of the process is read between rounds. One-time initialisation shows up in
        // the warm-up round only, a bounded cache stops growing; an unbounded one grows every round.
        const ROUNDS: usize = 8;
        const PER: i64 = 48;
        let mut kept: Vec<u64> = Vec::with_capacity(ROUNDS);
        for round in 0..=ROUNDS {
            let before = alloc::live();
            for j in 0..PER {
                let m = 3 + j + PER * round as i64;
                let _ = measure_sized(sc, m, 0, iset);
            }
            let after = alloc::live();
            if round > 0 {
                kept.push(after.saturating_sub(before));
            }
        }
        let total: u64 = kept.iter().sum();
        stats.steps += (ROUNDS as u64 + 1) * PER as u64;
        *stats.probes.entry("retention_rounds".into()).or_insert(0) += ROUNDS as u64;
        if total >= 8192 && kept.iter().all(|k| *k >= 256) {
            vs.push(Violation {
                property: "C15".into(),
                class: "oracle:retention".into(),
                site: format!("{}: memory kept after the state is dropped grows with the history of operands", sc.instr),
                detail: format!("{} rounds of {} steps of {} with operands no earlier round used, every state dropped afterwards: bytes still allocated after each round grew by {:?}", ROUNDS, PER, sc.instr, kept),
                at_event: 0,
            });
            stats.outcome = "excess".into();
        }
    }
    if stats.outcome.is_empty() {
        stats.outcome = "bounded".into();
    }
    stats.nontrivial = true;
    stats.digest = crate::rng::fnv1a(format!("{}{:?}{:?}{}", sc.instr, sc.int_layout, sc.float_layout, stats.outcome).as_bytes());
    stats.events = stats.steps;
    stats.log_hash = stats.digest ^ worst;
    OpResult {
        violations: vs,
        stats,
        worst_ratio_milli: worst,
    }
}

// -------------------------------------------------------------- (b) code growth

#[derive(Serialize, Deserialize, Clone, Debug, PartialEq)]
pub struct GrowthSc {
    pub seed: u64,
    pub prog: Vec<ISpec>,
    pub state: StateSpec,
    pub program_text: String,
}

pub fn generate_growth(seed: u64, instrs: &[String]) -> GrowthSc {
    let mut r = Rng::new(derive(seed, "envelope-growth"));
    let mut ctx = GenCtx::new(instrs);
    ctx.exclude = instrs.iter().filter(|n| n.contains("RAND") || n.as_str() == "EXEC.CMD").cloned().collect();
    let seedcode = |r: &mut Rng| -> ISpec {
        match r.below(3) {
            0 => ISpec::Int(1),
            1 => ISpec::L(vec![ISpec::Int(1), i("NOOP")]),
            _ => ISpec::L(vec![]),
        }
    };
    let grower = |r: &mut Rng| -> Vec<ISpec> {
        match r.below(10) {
            0 => vec![i("CODE.DUP"), i("CODE.LIST")],
            1 => vec![i("CODE.DUP"), i("CODE.APPEND")],
            2 => vec![i("CODE.DUP"), i("CODE.CONS")],
            3 => vec![i("CODE.DUP"), i("CODE.DUP"), ISpec::Int(1), i("CODE.INSERT")],
            4 => vec![i("CODE.DUP"), i("CODE.DUP"), i("CODE.DUP"), i("CODE.SUBST")],
            5 => vec![ISpec::IV(vec![3, 3]), i("CODE.DUP"), i("CODE.DUP"), i("LIST.ADD")],
            6 => vec![i("NAME.DUP"), i("NAME.CAT")],
            7 => vec![i("EXEC.DUP"), i("EXEC.S")],
            8 => vec![i("CODE.DUP"), i("CODE.DUP"), i("CODE.LIST"), i("CODE.LIST")],
            _ => vec![ISpec::Int(1), i("INTVECTOR.DUP"), i("INTVECTOR.APPEND")],
        }
    };
    let mut body = grower(&mut r);
    for _ in 0..r.below(3) {
        body.push(if r.chance(1, 2) { ctx.instr(&mut r) } else { ctx.literal(&mut r) });
    }
    let prog = match r.below(8) {
        5 => {
            // self-wrapping combinators: the wrapper wraps itself
            let w = *r.pick(&["EXEC.Y", "EXEC.LOOP", "EXEC.S", "EXEC.DUP"]);
            vec![ISpec::L(vec![ISpec::Int(300), i("INDEX.DEFINE"), i(*r.pick(&["EXEC.Y", "EXEC.LOOP"])), i(w), i(w), i(w)])]
        }
        6 => {
            // loops whose body is the loop instruction; vectors / code to feed them
            let mut v = vec![];
            for _ in 0..12 {
                v.push(ISpec::IV(vec![1, 2, 3, 4, 5, 6, 7, 8, 9, 10, 11, 12]));
            }
            v.push(i("CODE.QUOTE"));
            v.push(ISpec::L(vec![i("CODE.DUP"), i("CODE.LOOP")]));
            v.push(ISpec::Int(300));
            v.push(i("INDEX.DEFINE"));
            v.push(i(*r.pick(&["INTVECTOR.LOOP", "CODE.LOOP", "EXEC.LOOP"])));
            v.push(i(*r.pick(&["INTVECTOR.LOOP", "CODE.LOOP", "EXEC.LOOP", "CODE.DO*"])));
            v.push(ctx.small_code(&mut r));
            vec![ISpec::L(v)]
        }
        7 => vec![ISpec::L(vec![
            i("CODE.QUOTE"),
            seedcode(&mut r),
            i("EXEC.Y"),
            ISpec::L(vec![i("CODE.DUP"), i("CODE.DUP"), i("CODE.DUP"), ISpec::IV(vec![3, 3]), ISpec::Int(0), i("LIST.SET")]),
        ])],
        0 | 1 => vec![ISpec::L(vec![
            i("CODE.QUOTE"),
            seedcode(&mut r),
            ISpec::N("ab".into()),
            ISpec::IV(vec![1]),
            i("EXEC.Y"),
            ISpec::L(body),
        ])],
        2 => vec![ISpec::L(vec![
            i("CODE.QUOTE"),
            seedcode(&mut r),
            ISpec::N("ab".into()),
            ISpec::IV(vec![1]),
            ISpec::Int(200),
            i("INDEX.DEFINE"),
            i("EXEC.LOOP"),
            ISpec::L(body),
        ])],
        3 => {
            // nested wrapping: EXEC.Y of EXEC.Y
            vec![ISpec::L(vec![i("EXEC.Y"), ISpec::L(vec![i("EXEC.Y"), ISpec::L(vec![i("EXEC.DUP")])])])]
        }
        _ => {
            let mut v = vec![i("CODE.QUOTE"), seedcode(&mut r), ISpec::N("ab".into())];
            // stay well below max-points-in-program to begin with
            let b = 3 + r.below(30) as usize;
            v.push(ctx.tree(&mut r, b, 3));
            v.push(i("EXEC.Y"));
            v.push(ISpec::L(body));
            vec![ISpec::L(v)]
        }
    };
    let mut state = StateSpec::default();
    state.code.push(ISpec::L(vec![ISpec::Int(0)]));
    state.names.push("n".into());
    state.intvecs.push(vec![0]);
    GrowthSc {
        seed,
        program_text: render_program(&prog),
        prog,
        state,
    }
}

struct GrowthHooks {
    max_points: usize,
    violation: Option<Violation>,
    max_seen: usize,
}

impl Hooks for GrowthHooks {
    fn post(&mut self, ev: u64, name: &str, st: &mut PushState) {
        if self.violation.is_some() {
            return;
        }
        let mut worst = 0usize;
        let mut where_ = "";
        for k in 0..st.code_stack.size() {
            let s = Item::size(st.code_stack.get(k).unwrap());
            if s > worst {
                worst = s;
                where_ = "CODE";
            }
        }
        for k in 0..st.exec_stack.size() {
            let s = Item::size(st.exec_stack.get(k).unwrap());
            if s > worst {
                worst = s;
                where_ = "EXEC";
            }
        }
        self.max_seen = self.max_seen.max(worst);
        let name = name.to_string();
        let events = ev + 1;
        if worst > self.max_points {
            self.violation = Some(Violation {
                property: "C15".into(),
                class: "oracle:code-growth".into(),
                site: format!("{}: an item on the {} stack exceeds max-points-in-program", name, where_),
                detail: format!("after {} (event {}) an item of {} points is on the {} stack; max_points_in_program = {}", name, events, worst, where_, self.max_points),
                at_event: events,
            });
        } else {
            let mut big = 0usize;
            for k in 0..st.name_stack.size() {
                big = big.max(st.name_stack.get(k).unwrap().len());
            }
            for k in 0..st.int_vector_stack.size() {
                big = big.max(st.int_vector_stack.get(k).unwrap().values.len() * 4);
            }
            for k in 0..st.bool_vector_stack.size() {
                big = big.max(st.bool_vector_stack.get(k).unwrap().values.len());
            }
            for k in 0..st.float_vector_stack.size() {
                big = big.max(st.float_vector_stack.get(k).unwrap().values.len() * 4);
            }
            if big > (64 << 10) {
                self.violation = Some(Violation {
                    property: "C15".into(),
                    class: "oracle:memory-growth".into(),
                    site: format!("{}: a single name or vector keeps doubling under the default limits", name),
                    detail: format!("after {} (event {}) one item holds {} bytes; the run is {} steps into a budget of 1000", name, events, big, events),
                    at_event: events,
                });
            }
        }
        if self.violation.is_some() {
            // stop here so that the check itself never exhausts memory
            st.exec_stack.flush();
        }
    }
    fn as_any(&mut self) -> &mut dyn std::any::Any {
        self
    }
}

pub struct GrowthResult {
    pub violations: Vec<Violation>,
    pub stats: RunStats,
}

pub fn execute_growth(sc: &GrowthSc, iset: &mut InstructionSet, names: &[String]) -> GrowthResult {
    let cfg = ConfigSpec::default_cfg();
    let hooks = GrowthHooks {
        max_points: cfg.max_points_in_program.max(0) as usize,
        violation: None,
        max_seen: 0,
    };
    let env = EnvScript::quiet(sc.seed);
    let mut e = Envelope::standard();
    e.e_events = u64::MAX;
    e.e_bytes = 64 << 20;
    simenv::begin(&env, e, names, Some(Box::new(hooks)));
    let mut st = sc.state.build(&cfg);
    load_program(&mut st, iset, &sc.prog, false);
    let r = caught(|| format!("{:?}", PushInterpreter::run(&mut st, iset)));
    let mut core = simenv::end();
    let mut stats = RunStats {
        events: core.events,
        clock_us: core.clock_us,
        log_hash: core.log_hash,
        nontrivial: core.events > 0,
        ..Default::default()
    };
    let mut vs = vec![];
    if let Some(mut h) = core.hooks.take() {
        if let Some(h) = h.as_any().downcast_mut::<GrowthHooks>() {
            if let Some(v) = h.violation.take() {
                vs.push(v);
            }
            stats.probes.insert("max_points_seen".into(), h.max_seen as u64);
        }
    }
    stats.outcome = match r {
        Ok(o) => o,
        Err(_) => "panic".into(),
    };
    if !vs.is_empty() {
        stats.outcome = "growth-stopped".into();
    }
    stats.digest = statecode::digest(&st);
    GrowthResult { violations: vs, stats }
}

// ------------------------------------------------- (c) census of bound-crossing instructions

/// One step of one instruction on a state whose CODE / EXEC items already hold exactly
/// max-points-in-program points: which instructions can push an item past the bound? The
/// census makes the set of `oracle:code-growth` sites a deterministic function of the tree
/// (the random growth programs of (b) reach the same sites only by chance).
#[derive(Serialize, Deserialize, Clone, Debug, PartialEq)]
pub struct CrossSc {
    pub seed: u64,
    pub instr: String,
    /// bit 0: BOOLEAN stack empty, bit 1: top items are atoms instead of lists, bit 2: small INTEGER on top is 0
    pub layout: u8,
}

pub fn generate_cross(seed: u64, instr: &str, layout: u8) -> CrossSc {
    CrossSc {
        seed,
        instr: instr.to_string(),
        layout,
    }
}

fn full_item(points: usize, salt: i32) -> Item {
    // a flat list with exactly `points` points
    Item::list((0..(points as i32 - 1)).map(|k| Item::int(k ^ salt)).collect())
}

pub fn execute_cross(sc: &CrossSc, iset: &mut InstructionSet) -> (Vec<Violation>, RunStats) {
    let cfg = ConfigSpec::default_cfg();
    let maxp = cfg.max_points_in_program.max(0) as usize;
    let env = EnvScript::quiet(sc.seed);
    simenv::begin(&env, Envelope::off(), &[], None);
    let mut st = StateSpec::default().build(&cfg);
    let atoms = sc.layout & 2 != 0;
    for k in 0..3 {
        st.code_stack.push(if atoms && k == 2 { Item::int(5) } else { full_item(maxp, k) });
        st.exec_stack.push(if atoms && k == 2 { Item::int(6) } else { full_item(maxp, 10 + k) });
    }
    if sc.layout & 1 == 0 {
        st.bool_stack.push(true);
        st.bool_stack.push(false);
    }
    for v in [7, 2, 1, if sc.layout & 4 != 0 { 0 } else { 1 }] {
        st.int_stack.push(v);
    }
    st.float_stack.push(0.5);
    st.name_stack.push("x".into());
    st.name_stack.push("y".into());
    st.name_bindings.insert("x".into(), full_item(maxp, 20));
    st.int_vector_stack.push(pushr::push::vector::IntVector::new(vec![1, 2, 3]));
    st.int_vector_stack.push(pushr::push::vector::IntVector::new(vec![3, 3, 4]));
    st.bool_vector_stack.push(pushr::push::vector::BoolVector::new(vec![true, false]));
    st.float_vector_stack.push(pushr::push::vector::FloatVector::new(vec![1.0, 2.0]));
    st.index_stack.push(pushr::push::index::Index { current: 0, destination: 5 });
    st.exec_stack.push(Item::instruction(sc.instr.clone()));
    let cache = iset.cache();
    let r = caught(|| {
        PushInterpreter::step(&mut st, iset, &cache);
    });
    simenv::end();
    let mut vs = vec![];
    let mut stats = RunStats {
        steps: 1,
        events: 1,
        nontrivial: true,
        ..Default::default()
    };
    if r.is_ok() {
        let mut worst = 0usize;
        let mut where_ = "";
        for k in 0..st.code_stack.size() {
            let z = Item::size(st.code_stack.get(k).unwrap());
            if z > worst {
                worst = z;
                where_ = "CODE";
            }
        }
        for k in 0..st.exec_stack.size() {
            let z = Item::size(st.exec_stack.get(k).unwrap());
            if z > worst {
                worst = z;
                where_ = "EXEC";
            }
        }
        if worst > maxp {
            vs.push(Violation {
                property: "C15".into(),
                class: "oracle:code-growth".into(),
                site: format!("{}: an item on the {} stack exceeds max-points-in-program", sc.instr, where_),
                detail: format!("one step of {} on CODE / EXEC items of exactly {} points leaves an item of {} points on the {} stack (layout {})", sc.instr, maxp, worst, where_, sc.layout),
                at_event: 1,
            });
            stats.outcome = "crosses".into();
        } else {
            stats.outcome = "stays".into();
        }
    } else {
        stats.outcome = "panic".into();
    }
    stats.digest = crate::rng::fnv1a(format!("{}{}{}", sc.instr, sc.layout, stats.outcome).as_bytes());
    stats.log_hash = stats.digest;
    (vs, stats)
}
