//! C02: the run loop against a reference loop. The real `run()` executes on
//! state A; the harness steps an identically built state B with its own
//! accounting (step count, its own size(), the simulated clock) and collects
//! every (outcome, state) the statement allows. A time fault is placed at every
//! instruction event in turn, so that every early exit of `run()` is forced.
use crate::common::*;
use crate::gen::*;
use crate::rng::{derive, Rng};
use crate::simenv::{self, EnvScript, Envelope};
use crate::spec::*;
use crate::statecode;
use pushr::push::instructions::InstructionSet;
use pushr::push::interpreter::PushInterpreter;
use pushr::push::state::PushState;
use serde::{Deserialize, Serialize};

#[derive(Serialize, Deserialize, Clone, Debug, PartialEq)]
pub struct RunloopSc {
    pub seed: u64,
    pub cfg: ConfigSpec,
    pub state: StateSpec,
    pub prog: Vec<ISpec>,
    pub via_parser: bool,
    pub env: EnvScript,
    pub family: String,
    pub program_text: String,
    /// An earlier program that was loaded and run() to its end on the same state (on both sides,
    /// by the real run()) before the judged run: every run() has its own budgets.
    #[serde(default)]
    pub prelude: Vec<ISpec>,
    /// Both sides use an instruction set that was never loaded (`InstructionSet::new()`): every
    /// instruction item is unknown and is skipped, by run() exactly as by step().
    #[serde(default)]
    pub empty_iset: bool,
}

/// The earlier run on the same state. `Err` if it panicked (C01's matter).
fn run_prelude(sc: &RunloopSc, st: &mut PushState, iset: &mut InstructionSet) -> Result<(), ()> {
    if sc.prelude.is_empty() {
        return Ok(());
    }
    load_program(st, iset, &sc.prelude, false);
    caught(|| {
        let _ = PushInterpreter::run(st, iset);
    })
    .map_err(|_| ())
}

/// Instructions outside the quantifier of C02 (RAND-free). Graph instructions
/// stay in: the simulator owns the node id counter (seam H4b), so A and B hand
/// out the same ids.
pub fn excluded(instrs: &[String]) -> Vec<String> {
    instrs.iter().filter(|n| n.contains("RAND")).cloned().collect()
}

fn counter_body(r: &mut Rng, ctx: &GenCtx) -> ISpec {
    // a body that makes every state distinct (monotone counter) plus noise
    let mut v = vec![ISpec::Int(1), i("INTEGER.+")];
    for _ in 0..r.below(4) {
        v.push(if r.chance(1, 2) { ctx.instr(r) } else { ctx.literal(r) });
    }
    ISpec::L(v)
}

pub fn generate(seed: u64, instrs: &[String]) -> RunloopSc {
    let mut r = Rng::new(derive(seed, "runloop"));
    let mut ctx = GenCtx::new(instrs);
    ctx.exclude = excluded(instrs);
    let mut cfg = ConfigSpec::default_cfg();
    let l: i32 = match r.below(8) {
        0 => -1,
        1 => 0,
        2 => 1,
        3..=5 => r.range(2, 64) as i32,
        6 => r.range(64, 300) as i32,
        _ => 1000,
    };
    cfg.eval_push_limit = l;
    cfg.growth_cap = match r.below(6) {
        0 => 0,
        1 => 1,
        2..=3 => r.range(2, 40) as usize,
        _ => 500,
    };
    cfg.eval_time_limit = *r.pick(&[0u64, 1, 50, 5000, 5000]);
    let mut state = gen_state(&mut Rng::new(derive(seed, "state")), &mut ctx);
    if r.chance(1, 2) {
        // a leaner state keeps the EXEC stack the program's own
        state.exec.clear();
    }
    let cap = cfg.growth_cap as i64;
    let (family, prog): (&str, Vec<ISpec>) = match r.below(10) {
        8 | 9 => {
            // coincidences: the step that grows the state beyond the cap is step number
            // limit-1 .. limit+2, i.e. limits are reached on one and the same step
            let lim = r.range(0, 20) as i32;
            cfg.eval_push_limit = lim;
            cfg.growth_cap = r.below(4) as usize;
            let g = cfg.growth_cap + 1 + r.below(3) as usize; // items in the exploding list (growth g-1 .. )
            let k = (lim as i64 + r.range(-1, 2)).max(0) as usize; // steps before the explosion
            let mut v = vec![];
            for _ in 0..k {
                v.push(match r.below(3) {
                    0 => i("NOOP"),
                    1 => ISpec::Int(1),
                    _ => ISpec::I("UNKNOWN.OP".to_string()),
                });
            }
            let mut inner = vec![];
            for _ in 0..(g + 1) {
                inner.push(ISpec::Int(2));
            }
            v.push(ISpec::L(inner));
            v.push(i("NOOP"));
            v.push(i("INTEGER.DUP"));
            state.exec.clear();
            ("coincidence", v)
        }
        7 => {
            // steps whose net growth is +1 on one particular stack, pushed one by one
            // (no list to unpack), against a cap of 0 or 1: pins down what size() counts
            cfg.growth_cap = r.below(2) as usize;
            if state.input.is_empty() {
                state.input.push(gen_msg(&mut r, 77));
            }
            let mut v = vec![];
            for _ in 0..(1 + r.below(4)) {
                v.push(ISpec::Int(gen_small_int(&mut r)));
            }
            for _ in 0..(1 + r.below(3)) {
                v.push(i(*r.pick(&["INTEGER.DDUP", "INPUT.READ", "CODE.DO", "CODE.DO*", "INTEGER.DUP", "EXEC.DUP", "NOOP"])));
                if r.chance(1, 2) {
                    v.push(ISpec::Int(gen_small_int(&mut r)));
                }
            }
            ("net-growth", v)
        }
        0 => {
            // straight line of exact length around the step limit
            let base = (l as i64).max(0);
            let m = (base + r.range(-3, 3)).max(0) as usize;
            let mut v = vec![];
            for _ in 0..m {
                v.push(match r.below(4) {
                    0 => i("NOOP"),
                    1 => ISpec::Int(gen_small_int(&mut r)),
                    2 => i("INTEGER.POP"),
                    _ => ISpec::B(r.chance(1, 2)),
                });
            }
            ("straight", if r.chance(1, 2) { vec![ISpec::L(v)] } else { v })
        }
        1 => ("diverging", vec![ISpec::L(vec![ISpec::Int(0), i("EXEC.Y"), counter_body(&mut r, &ctx)])]),
        2 => {
            // one step that unpacks g items: growth g-1 against the cap
            let g = (cap + r.range(-1, 3)).max(0) as usize;
            let g = g.min(600);
            let mut inner = vec![];
            for _ in 0..g {
                inner.push(match r.below(3) {
                    0 => ISpec::Int(gen_small_int(&mut r)),
                    1 => i("NOOP"),
                    _ => ISpec::B(true),
                });
            }
            let mut v = vec![];
            for _ in 0..r.below(3) {
                v.push(ctx.literal(&mut r));
            }
            v.push(ISpec::L(inner));
            v.push(i("INTEGER.DUP"));
            ("exploding", vec![ISpec::L(v)])
        }
        3 => {
            // growth on stacks size() does not count (INDEX, OUTPUT) and on those it does
            let mut v = vec![];
            for _ in 0..(2 + r.below(10)) {
                match r.below(6) {
                    0 => {
                        v.push(ISpec::Int(gen_small_int(&mut r)));
                        v.push(i("INDEX.DEFINE"));
                    }
                    1 => {
                        v.push(ISpec::BV(gen_boolvec(&mut r)));
                        v.push(ISpec::IV(gen_intvec(&mut r)));
                        v.push(i("OUTPUT.WRITE"));
                    }
                    2 => v.push(i(*r.pick(&["INTEGER.DUP", "CODE.DUP", "EXEC.DUP", "FLOAT.DUP", "NAME.DUP", "BOOLEAN.DUP", "INTEGER.DDUP"]))),
                    3 => v.push(i(*r.pick(&["CODE.DO", "CODE.DO*", "EXEC.S", "EXEC.Y", "LIST.GET", "CODE.LIST"]))),
                    4 => v.push(ctx.small_code(&mut r)),
                    _ => v.push(ctx.literal(&mut r)),
                }
            }
            ("growth-mix", vec![ISpec::L(v)])
        }
        4 => {
            // stalling: EXEC.CMD sleeps one simulated second inside a step
            let mut v = vec![ISpec::N("true".to_string()), ISpec::Int(0), i("EXEC.CMD")];
            for _ in 0..r.below(6) {
                v.push(ctx.instr(&mut r));
            }
            if r.chance(1, 2) {
                v.push(ISpec::L(vec![i("EXEC.Y"), counter_body(&mut r, &ctx)]));
            }
            ("stalling", vec![ISpec::L(v)])
        }
        5 => {
            let n = gen_small_int(&mut r);
            ("loop", vec![ISpec::L(vec![
                ISpec::Int(n),
                i("INDEX.DEFINE"),
                i(*r.pick(&["EXEC.LOOP", "CODE.LOOP"])),
                counter_body(&mut r, &ctx),
            ])])
        }
        _ => ("grammar", grammar_program(&mut r, &ctx)),
    };
    let mut env = EnvScript::quiet(seed);
    env.slow = r.chance(1, 5);
    env.map_salt = if r.chance(1, 3) { r.next() | 1 } else { 0 };
    env.p_spawn_fail = *r.pick(&[0u32, 0, 500]);
    let via_parser = r.chance(1, 2);
    // one in four: the state has already been through a run() (a short one, one that ends at the
    // step limit, or a few steps of a counter)
    let prelude = if r.chance(1, 4) {
        match r.below(3) {
            0 => vec![ISpec::L(vec![ISpec::Int(1), ISpec::Int(2), i("INTEGER.+"), i("INTEGER.POP")])],
            1 => vec![ISpec::L(vec![i("EXEC.Y"), ISpec::L(vec![i("NOOP")])])],
            _ => vec![counter_body(&mut r, &ctx)],
        }
    } else {
        vec![]
    };
    RunloopSc {
        seed,
        cfg,
        state,
        program_text: render_program(&prog),
        prog,
        via_parser,
        env,
        family: family.to_string(),
        prelude,
        empty_iset: r.chance(1, 16),
    }
}

/// The harness's own notion of "the state" for the growth cap: the nine main
/// stacks (independent of PushState::size()).
fn own_size(st: &PushState) -> usize {
    st.bool_stack.size()
        + st.float_stack.size()
        + st.int_stack.size()
        + st.name_stack.size()
        + st.code_stack.size()
        + st.exec_stack.size()
        + st.bool_vector_stack.size()
        + st.float_vector_stack.size()
        + st.int_vector_stack.size()
}

/// Operand-sized instructions are skipped above the C01 envelope and a run that
/// grows past 4 MiB is stopped and not judged (C15 covers what happens there).
fn envelope() -> Envelope {
    let mut e = Envelope::standard();
    e.e_bytes = 4 << 20;
    e.e_events = u64::MAX;
    e
}

pub struct Accept {
    pub outcome: &'static str,
    pub steps: u64,
    pub code: String,
    pub must: bool,
}

pub struct RefResult {
    pub accept: Vec<Accept>,
    pub events: u64,
    pub step_events: Vec<u64>,
    pub violations: Vec<Violation>,
}

fn viol(class: &str, site: &str, detail: String, ev: u64) -> Violation {
    Violation {
        property: "C02".into(),
        class: class.into(),
        site: site.into(),
        detail,
        at_event: ev,
    }
}

/// The reference loop on state B.
pub fn reference(sc: &RunloopSc, iset: &mut InstructionSet, names: &[String], max_steps: u64) -> RefResult {
    let mut unloaded = InstructionSet::new();
    let iset = if sc.empty_iset { &mut unloaded } else { iset };
    let mut violations = vec![];
    simenv::begin(&sc.env, envelope(), names, None);
    let mut st = sc.state.build(&sc.cfg);
    if run_prelude(sc, &mut st, iset).is_err() {
        simenv::end();
        return RefResult { accept: vec![], events: 0, step_events: vec![], violations: vec![] };
    }
    load_program(&mut st, iset, &sc.prog, sc.via_parser);
    // own copy of EXEC onto CODE, same order
    let n = st.exec_stack.size();
    for k in (0..n).rev() {
        let it = st.exec_stack.get(k).unwrap().clone();
        st.code_stack.push(it);
    }
    let cache = iset.cache();
    let limit = sc.cfg.eval_push_limit as i64;
    let tlimit_us = sc.cfg.eval_time_limit.saturating_mul(1000);
    let cap = sc.cfg.growth_cap;
    let start = simenv::with(|s| s.clock_us);
    let mut steps: u64 = 0;
    let mut accept: Vec<Accept> = vec![];
    let mut step_events = vec![];
    let res = caught(|| loop {
        let elapsed = simenv::with(|s| s.clock_us) - start;
        let exec_empty = st.exec_stack.size() == 0;
        let must_limit = (steps as i64) > limit;
        let may_limit = limit >= 0 && (steps as i64) == limit;
        let must_time = elapsed > tlimit_us;
        let may_time = elapsed == tlimit_us;
        if must_limit || may_limit || must_time || may_time || exec_empty {
            let code = statecode::statecode(&st);
            if must_limit || may_limit {
                accept.push(Accept { outcome: "StepLimitExceeded", steps, code: code.clone(), must: must_limit });
            }
            if must_time || may_time {
                accept.push(Accept { outcome: "TimeLimitExceeded", steps, code: code.clone(), must: must_time });
            }
            if exec_empty {
                // clause 7: a step on an empty EXEC reports completion and changes nothing
                let done = PushInterpreter::step(&mut st, iset, &cache);
                let after = statecode::statecode(&st);
                if !done {
                    violations.push(viol("oracle:empty-step", "step", "step() on an empty EXEC stack returned false".into(), 0));
                }
                if after != code {
                    violations.push(viol("oracle:empty-step", "step", "step() on an empty EXEC stack changed the state".into(), 0));
                }
                accept.push(Accept { outcome: "NoErrors", steps, code, must: true });
                break;
            }
            if must_limit || must_time {
                break;
            }
        }
        if steps >= max_steps {
            break;
        }
        let before = own_size(&st);
        let before_all = before + st.index_stack.size() + st.graph_stack.size();
        step_events.push(simenv::with(|s| s.events));
        let done = PushInterpreter::step(&mut st, iset, &cache);
        if done {
            violations.push(viol("oracle:step-return", "step", "step() returned true although EXEC was not empty".into(), 0));
            break;
        }
        // "the state": the nine value stacks the tree counts, or those plus INDEX and GRAPH (both are
        // "the stacks without the IO stacks"); a stop is due when both readings agree, allowed when one does
        let grew9 = own_size(&st) > before.saturating_add(cap);
        let grew_all = own_size(&st) + st.index_stack.size() + st.graph_stack.size() > before_all.saturating_add(cap);
        if grew9 || grew_all {
            accept.push(Accept { outcome: "GrowthCapExceeded", steps: steps + 1, code: statecode::statecode(&st), must: grew9 && grew_all });
            if grew9 && grew_all {
                break;
            }
        }
        steps += 1;
    });
    let core = simenv::end();
    if res.is_err() || core.left_envelope {
        // a crashing step is C01's matter, an exploding one C15's; not judged
        violations.clear();
        accept.clear();
    }
    RefResult {
        accept,
        events: core.events,
        step_events,
        violations,
    }
}

pub struct Executed {
    pub violations: Vec<Violation>,
    pub outcome: String,
    pub digest: u64,
    pub clock_us: u64,
    pub events: u64,
    pub faults: std::collections::BTreeMap<String, u64>,
    pub log_hash: u64,
    pub judged: bool,
}

/// One execution: real run() on A under `sc.env`, compared with the reference.
pub fn execute(sc: &RunloopSc, iset: &mut InstructionSet, names: &[String]) -> Executed {
    let max_steps = (sc.cfg.eval_push_limit.max(0) as u64) + 8;
    let rf = reference(sc, iset, names, max_steps);
    let mut unloaded = InstructionSet::new();
    let iset = if sc.empty_iset { &mut unloaded } else { iset };
    let mut violations = rf.violations;
    simenv::begin(&sc.env, envelope(), names, None);
    let mut st = sc.state.build(&sc.cfg);
    let pre = run_prelude(sc, &mut st, iset);
    load_program(&mut st, iset, &sc.prog, sc.via_parser);
    let res = if pre.is_err() { None } else { Some(caught(|| format!("{:?}", PushInterpreter::run(&mut st, iset)))) };
    let core = simenv::end();
    let mut ex = Executed {
        violations: vec![],
        outcome: String::new(),
        digest: 0,
        clock_us: core.clock_us,
        events: core.events,
        faults: core.faults.iter().map(|(k, v)| (k.to_string(), *v)).collect(),
        log_hash: core.log_hash,
        judged: false,
    };
    let outcome = match res {
        Some(Ok(o)) => o,
        _ => {
            ex.outcome = "panic".into();
            return ex; // C01's matter
        }
    };
    ex.outcome = outcome.clone();
    if rf.accept.is_empty() || core.left_envelope {
        return ex;
    }
    ex.judged = true;
    let code = statecode::statecode(&st);
    ex.digest = crate::rng::fnv1a(code.as_bytes());
    let ok = rf.accept.iter().any(|a| a.outcome == outcome && a.code == code);
    if !ok {
        // explain: which clause
        let same_outcome: Vec<&Accept> = rf.accept.iter().filter(|a| a.outcome == outcome).collect();
        let same_state: Vec<&Accept> = rf.accept.iter().filter(|a| a.code == code).collect();
        let allowed: Vec<String> = rf.accept.iter().map(|a| format!("{}@{}{}", a.outcome, a.steps, if a.must { "!" } else { "" })).collect();
        let (class, detail) = if !same_outcome.is_empty() {
            ("oracle:final-state", format!("run() returned {} but left a state that single-stepping does not reach at an allowed stop point; allowed: {:?}", outcome, allowed))
        } else if !same_state.is_empty() {
            ("oracle:outcome", format!("run() stopped where the reference stops after {} steps but reported {}; allowed: {:?}", same_state[0].steps, outcome, allowed))
        } else {
            ("oracle:outcome-and-state", format!("run() returned {} with a state matching no allowed stop point; allowed: {:?}", outcome, allowed))
        };
        violations.push(viol(class, &format!("run: {}", outcome), detail, core.events));
    }
    ex.violations = violations;
    ex
}

/// One program with its stop-point sweep. Returns per-execution results folded
/// into one RunStats plus the failing scenarios.
pub fn run_program(seed: u64, iset: &mut InstructionSet, names: &[String], max_sweep: u64) -> (RunStats, Vec<(Violation, RunloopSc)>, serde_json::Value) {
    let sc = generate(seed, names);
    let mut stats = RunStats::default();
    let mut found: Vec<(Violation, RunloopSc)> = vec![];
    let mut digests = vec![];
    let base = execute(&sc, iset, names);
    let mut fold = |ex: &Executed, stats: &mut RunStats| {
        stats.steps += 1; // executions
        stats.events += ex.events;
        stats.clock_us = stats.clock_us.saturating_add(ex.clock_us);
        for (k, v) in &ex.faults {
            *stats.faults.entry(k.clone()).or_insert(0) += v;
        }
        *stats.probes.entry(format!("outcome_{}", ex.outcome)).or_insert(0) += 1;
        if ex.judged {
            *stats.probes.entry("judged".into()).or_insert(0) += 1;
        }
        stats.log_hash ^= ex.log_hash.rotate_left((stats.steps % 63) as u32);
    };
    fold(&base, &mut stats);
    digests.push(base.digest);
    for v in &base.violations {
        found.push((v.clone(), sc.clone()));
    }
    // the sweep: a stall that crosses the time limit, at every instruction event
    let n_events = base.events.max(1);
    let jump = sc.cfg.eval_time_limit.saturating_mul(1000).saturating_add(1 + (seed % 5000));
    let mut points: Vec<u64> = (0..n_events.min(max_sweep)).collect();
    if n_events > max_sweep {
        let mut r = Rng::new(derive(seed, "sweep"));
        for _ in 0..8 {
            points.push(max_sweep + r.below(n_events - max_sweep));
        }
    }
    for k in points {
        let mut s2 = sc.clone();
        s2.env.stalls = vec![(k, jump)];
        let ex = execute(&s2, iset, names);
        fold(&ex, &mut stats);
        digests.push(ex.digest);
        for v in &ex.violations {
            if !found.iter().any(|(f, _)| f.key() == v.key()) {
                found.push((v.clone(), s2.clone()));
            }
        }
    }
    digests.sort();
    digests.dedup();
    stats.digest = crate::rng::fnv1a(&digests.iter().flat_map(|d| d.to_le_bytes()).collect::<Vec<u8>>());
    stats.nontrivial = base.judged && base.events > 0;
    stats.outcome = format!("{}:{}", sc.family, base.outcome);
    let sample = serde_json::json!({"family": sc.family, "program": sc.program_text.chars().take(300).collect::<String>(),
        "eval_push_limit": sc.cfg.eval_push_limit, "growth_cap": sc.cfg.growth_cap, "eval_time_limit_ms": sc.cfg.eval_time_limit,
        "base_outcome": base.outcome, "instruction_events": base.events, "sweep_points": stats.steps - 1});
    (stats, found, sample)
}
