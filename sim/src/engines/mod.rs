pub mod entropy;
pub mod isolation;
pub mod envelope;
pub mod queues;
pub mod runloop;
pub mod world;

use crate::common::*;
use crate::simenv::{self, Envelope};
use crate::Args;
use pushr::push::instructions::InstructionSet;
use serde_json::Value;

/// Per-worker context reused across runs.
pub struct Ctx {
    pub iset: InstructionSet,
    /// the shipped registry without wrappers
    pub plain: InstructionSet,
    pub names: Vec<String>,
    pub tier: String,
    pub cur_index: u64,
    /// engine "profile": run the perturbed twins of every subject first
    pub twins: bool,
    pub extra: std::collections::BTreeMap<String, u64>,
}

impl Ctx {
    pub fn new(args: &Args) -> Ctx {
        let (iset, names) = simenv::wrapped_set();
        let mut plain = InstructionSet::new();
        plain.load();
        Ctx {
            plain,
            iset,
            names,
            tier: args.str("tier", "quick"),
            cur_index: 0,
            twins: args.u64("twins", 0) == 1,
            extra: Default::default(),
        }
    }
    pub fn extra_summary(&self) -> Value {
        serde_json::to_value(&self.extra).unwrap()
    }
}

pub struct OneResult {
    pub effective: Vec<u64>,
    /// per-run line for cross-build comparison (engine "profile")
    pub trace_line: Option<String>,
    pub violations: Vec<(Violation, Value)>,
    pub stats: RunStats,
    pub counts: Vec<u64>,
    pub sample: Value,
}

pub fn run_one(engine: &str, seed: u64, ctx: &mut Ctx) -> OneResult {
    match engine {
        "world" => {
            let sc = world::generate(seed, &ctx.names);
            let mut ex = world::execute(&sc, &mut ctx.iset, &ctx.names, Envelope::standard());
            let ex_effective = std::mem::take(&mut ex.effective);
            let mut violations = vec![];
            if !ex.violations.is_empty() {
                // hand out the explicit form, so that minimisation and replay do
                // not depend on the code generator's draw order
                let mut sc2 = sc.clone();
                if let world::ProgSpec::RandomCode { .. } = sc.prog {
                    if !ex.explicit_prog.is_empty() {
                        sc2.prog = world::ProgSpec::Explicit(ex.explicit_prog.clone());
                        sc2.entropy_skip = ex.draws_before_run;
                        sc2.via_parser = false;
                        sc2.program_text = crate::spec::render_program(&ex.explicit_prog);
                    }
                }
                let scv = serde_json::to_value(&sc2).unwrap();
                for v in ex.violations {
                    violations.push((v, scv.clone()));
                }
            }
            OneResult {
                trace_line: None,
                violations,
                sample: serde_json::json!({"program": sc.program_text, "mode": sc.mode, "via_parser": sc.via_parser,
                    "state_items": sc.state.total_items(), "host_ops": sc.hosts.len(),
                    "stalls": sc.env.stalls, "p_extreme": sc.env.p_extreme, "p_spawn_fail": sc.env.p_spawn_fail}),
                stats: ex.stats,
                counts: ex.counts,
                effective: ex_effective,
            }
        }
        "queues" => {
            let sc = queues::generate(seed, &ctx.names, ctx.tier == "thorough");
            let (vs, stats, sample) = queues::execute(&sc, &mut ctx.iset, &ctx.names);
            let scv = if vs.is_empty() { Value::Null } else { serde_json::to_value(&sc).unwrap() };
            OneResult {
                effective: vec![],
                trace_line: None,
                violations: vs.into_iter().map(|v| (v, scv.clone())).collect(),
                stats,
                counts: vec![],
                sample,
            }
        }
        "entropy-c12" | "entropy-c13" => {
            let prop = if engine == "entropy-c12" { "C12" } else { "C13" };
            let sc = entropy::generate(seed, prop, ctx.tier == "thorough");
            let ex = entropy::execute(&sc, &ctx.names);
            let scv = if ex.violations.is_empty() { Value::Null } else { serde_json::to_value(&sc).unwrap() };
            OneResult {
                effective: vec![],
                trace_line: None,
                violations: ex.violations.into_iter().map(|v| (v, scv.clone())).collect(),
                sample: serde_json::json!({"case": sc.case, "streams": sc.streams, "p_extreme": sc.p_extreme, "p_repeat": sc.p_repeat}),
                stats: ex.stats,
                counts: vec![],
            }
        }
        "envelope-op" => {
            let subjects = envelope::op_subjects(&ctx.names);
            let instr = subjects[(ctx.cur_index % subjects.len() as u64) as usize].clone();
            let sc = envelope::generate_op(seed, &instr, ctx.tier == "thorough");
            let r = envelope::execute_op(&sc, &mut ctx.plain);
            let scv = if r.violations.is_empty() { Value::Null } else { serde_json::to_value(&sc).unwrap() };
            let e = ctx.extra.entry("worst_cost_over_bound_permille".into()).or_insert(0);
            *e = (*e).max(r.worst_ratio_milli);
            OneResult {
                effective: vec![],
                trace_line: None,
                violations: r.violations.into_iter().map(|v| (v, scv.clone())).collect(),
                sample: serde_json::json!({"instruction": sc.instr, "int_layout": sc.int_layout, "float_layout": sc.float_layout, "magnitudes": sc.magnitudes}),
                stats: r.stats,
                counts: vec![],
            }
        }
        "envelope-cross" => {
            let n = ctx.names.len() as u64;
            let instr = ctx.names[(ctx.cur_index % n) as usize].clone();
            let sc = envelope::generate_cross(seed, &instr, ((ctx.cur_index / n) % 8) as u8);
            let (vs, stats) = envelope::execute_cross(&sc, &mut ctx.plain);
            let scv = if vs.is_empty() { Value::Null } else { serde_json::to_value(&sc).unwrap() };
            OneResult {
                effective: vec![],
                trace_line: None,
                violations: vs.into_iter().map(|v| (v, scv.clone())).collect(),
                sample: serde_json::json!({"instruction": sc.instr, "layout": sc.layout}),
                stats,
                counts: vec![],
            }
        }
        "envelope-growth" => {
            let sc = envelope::generate_growth(seed, &ctx.names);
            let r = envelope::execute_growth(&sc, &mut ctx.iset, &ctx.names);
            let scv = if r.violations.is_empty() { Value::Null } else { serde_json::to_value(&sc).unwrap() };
            OneResult {
                effective: vec![],
                trace_line: None,
                violations: r.violations.into_iter().map(|v| (v, scv.clone())).collect(),
                sample: serde_json::json!({"program": sc.program_text.chars().take(300).collect::<String>()}),
                stats: r.stats,
                counts: vec![],
            }
        }
        "isolation" => {
            let sc = isolation::generate(seed, &ctx.names);
            let ex = isolation::execute(&sc, &mut ctx.iset, &ctx.names);
            let scv = if ex.violations.is_empty() { Value::Null } else { serde_json::to_value(&sc).unwrap() };
            OneResult {
                effective: vec![],
                trace_line: None,
                violations: ex.violations.into_iter().map(|v| (v, scv.clone())).collect(),
                sample: serde_json::json!({"subject": sc.program_text.chars().take(240).collect::<String>(), "copies": sc.copies, "noise_tasks": sc.noise.len(),
                    "warmup_steps": sc.warmup, "shared_instruction_set": sc.share_iset, "run_with_intrusions": sc.run_with_intrusions}),
                stats: ex.stats,
                counts: vec![],
            }
        }
        "profile" => {
            let (stats, line) = isolation::profile_run(seed, &mut ctx.iset, &ctx.names, ctx.twins);
            OneResult {
                effective: vec![],
                trace_line: Some(line.clone()),
                violations: vec![],
                sample: serde_json::json!({"line": line}),
                stats,
                counts: vec![],
            }
        }
        "queues-enum" => {
            // `seed` is ignored: the run index enumerates the space (see main.rs)
            let sc = queues::enumerate(ctx.cur_index);
            let (vs, stats, sample) = queues::execute(&sc, &mut ctx.iset, &ctx.names);
            let scv = if vs.is_empty() { Value::Null } else { serde_json::to_value(&sc).unwrap() };
            OneResult {
                effective: vec![],
                trace_line: None,
                violations: vs.into_iter().map(|v| (v, scv.clone())).collect(),
                stats,
                counts: vec![],
                sample,
            }
        }
        "runloop" => {
            let sweep = if ctx.tier == "thorough" { 256 } else { 64 };
            let (stats, found, sample) = runloop::run_program(seed, &mut ctx.iset, &ctx.names, sweep);
            OneResult {
                effective: vec![],
                trace_line: None,
                violations: found
                    .into_iter()
                    .map(|(v, sc)| (v, serde_json::to_value(&sc).unwrap()))
                    .collect(),
                stats,
                counts: vec![],
                sample,
            }
        }
        _ => panic!("unknown engine {}", engine),
    }
}

pub fn replay_one(engine: &str, scenario: &Value, ctx: &mut Ctx) -> Vec<Violation> {
    match engine {
        "world" => {
            let sc: world::WorldSc = serde_json::from_value(scenario.clone()).expect("world scenario");
            world::execute(&sc, &mut ctx.iset, &ctx.names, Envelope::standard()).violations
        }
        "runloop" => {
            let sc: runloop::RunloopSc = serde_json::from_value(scenario.clone()).expect("runloop scenario");
            runloop::execute(&sc, &mut ctx.iset, &ctx.names).violations
        }
        "queues" | "queues-enum" => {
            let sc: queues::QueueSc = serde_json::from_value(scenario.clone()).expect("queues scenario");
            queues::execute(&sc, &mut ctx.iset, &ctx.names).0
        }
        "entropy-c12" | "entropy-c13" => {
            let sc: entropy::EntropySc = serde_json::from_value(scenario.clone()).expect("entropy scenario");
            entropy::execute(&sc, &ctx.names).violations
        }
        "isolation" => {
            let sc: isolation::IsoSc = serde_json::from_value(scenario.clone()).expect("isolation scenario");
            isolation::execute(&sc, &mut ctx.iset, &ctx.names).violations
        }
        "envelope-op" => {
            let sc: envelope::OpSc = serde_json::from_value(scenario.clone()).expect("envelope-op scenario");
            envelope::execute_op(&sc, &mut ctx.plain).violations
        }
        "envelope-cross" => {
            let sc: envelope::CrossSc = serde_json::from_value(scenario.clone()).expect("envelope-cross scenario");
            envelope::execute_cross(&sc, &mut ctx.plain).0
        }
        "envelope-growth" => {
            let sc: envelope::GrowthSc = serde_json::from_value(scenario.clone()).expect("envelope-growth scenario");
            envelope::execute_growth(&sc, &mut ctx.iset, &ctx.names).violations
        }
        _ => panic!("unknown engine {}", engine),
    }
}

pub fn scenario_of(engine: &str, seed: u64, ctx: &mut Ctx) -> Value {
    match engine {
        "world" => serde_json::to_value(world::generate(seed, &ctx.names)).unwrap(),
        "runloop" => serde_json::to_value(runloop::generate(seed, &ctx.names)).unwrap(),
        "queues" => serde_json::to_value(queues::generate(seed, &ctx.names, ctx.tier == "thorough")).unwrap(),
        "queues-enum" => serde_json::to_value(queues::enumerate(ctx.cur_index)).unwrap(),
        "envelope-op" => {
            let subjects = envelope::op_subjects(&ctx.names);
            let instr = subjects[(ctx.cur_index % subjects.len() as u64) as usize].clone();
            serde_json::to_value(envelope::generate_op(seed, &instr, ctx.tier == "thorough")).unwrap()
        }
        "envelope-growth" => serde_json::to_value(envelope::generate_growth(seed, &ctx.names)).unwrap(),
        "envelope-cross" => {
            let n = ctx.names.len() as u64;
            let instr = ctx.names[(ctx.cur_index % n) as usize].clone();
            serde_json::to_value(envelope::generate_cross(seed, &instr, ((ctx.cur_index / n) % 8) as u8)).unwrap()
        }
        "isolation" => serde_json::to_value(isolation::generate(seed, &ctx.names)).unwrap(),
        "entropy-c12" => serde_json::to_value(entropy::generate(seed, "C12", ctx.tier == "thorough")).unwrap(),
        "entropy-c13" => serde_json::to_value(entropy::generate(seed, "C13", ctx.tier == "thorough")).unwrap(),
        _ => panic!("unknown engine {}", engine),
    }
}

pub fn minimise_one(engine: &str, scenario: &Value, key: &str, ctx: &mut Ctx) -> Value {
    match engine {
        "world" => {
            let sc: world::WorldSc = serde_json::from_value(scenario.clone()).expect("world scenario");
            let names = ctx.names.clone();
            let iset = &mut ctx.iset;
            let best = crate::minimise::shrink_world(&sc, &mut |cand| {
                world::execute(cand, iset, &names, Envelope::standard())
                    .violations
                    .iter()
                    .any(|v| v.key() == key)
            });
            serde_json::to_value(best).unwrap()
        }
        "queues" | "queues-enum" => {
            let sc: queues::QueueSc = serde_json::from_value(scenario.clone()).expect("queues scenario");
            let names = ctx.names.clone();
            let iset = &mut ctx.iset;
            let mut fails = |c: &queues::QueueSc| queues::execute(c, iset, &names).0.iter().any(|v| v.key() == key);
            let best = crate::minimise::shrink_queues(&sc, &mut fails);
            serde_json::to_value(best).unwrap()
        }
        "entropy-c12" | "entropy-c13" => {
            let sc: entropy::EntropySc = serde_json::from_value(scenario.clone()).expect("entropy scenario");
            let names = ctx.names.clone();
            let fails = |c: &entropy::EntropySc| entropy::execute(c, &names).violations.iter().any(|v| v.key() == key);
            let mut best = sc.clone();
            // without the entropy faults
            let mut c = best.clone();
            c.p_extreme = 0;
            c.p_repeat = 0;
            if fails(&c) {
                best = c;
            }
            // a single stream, if one stream suffices (reachability needs them all)
            if best.only_stream.is_none() {
                for k in 0..best.streams {
                    let mut c = best.clone();
                    c.only_stream = Some(k);
                    if fails(&c) {
                        best = c;
                        break;
                    }
                }
            }
            serde_json::to_value(best).unwrap()
        }
        "isolation" => {
            let sc: isolation::IsoSc = serde_json::from_value(scenario.clone()).expect("isolation scenario");
            let names = ctx.names.clone();
            let iset = &mut ctx.iset;
            let mut fails = |c: &isolation::IsoSc| isolation::execute(c, iset, &names).violations.iter().any(|v| v.key() == key);
            let mut best = sc.clone();
            let mut budget = 1500usize;
            // fewer co-runners, fewer copies, no warm-up, no intrusions
            let noise = best.noise.clone();
            let b2 = best.clone();
            best.noise = crate::minimise::shrink_vec(&noise, &mut |v| { let mut c = b2.clone(); c.noise = v; fails(&c) }, &mut budget);
            for copies in 1..best.copies {
                let mut c = best.clone();
                c.copies = copies;
                if fails(&c) {
                    best = c;
                    break;
                }
            }
            for f in [|c: &mut isolation::IsoSc| c.warmup = 0, |c: &mut isolation::IsoSc| c.run_with_intrusions = false, |c: &mut isolation::IsoSc| c.share_iset = false] {
                let mut c = best.clone();
                f(&mut c);
                if c != best && fails(&c) {
                    best = c;
                }
            }
            // the subject's program and state
            let p = best.subject.prog.clone();
            let b2 = best.clone();
            let r = crate::minimise::shrink_program(&p, &mut |cand| { let mut c = b2.clone(); c.subject.prog = cand.to_vec(); fails(&c) }, &mut budget);
            best.program_text = crate::spec::render_program(&r);
            best.subject.prog = r;
            serde_json::to_value(best).unwrap()
        }
        "runloop" => {
            let sc: runloop::RunloopSc = serde_json::from_value(scenario.clone()).expect("runloop scenario");
            let names = ctx.names.clone();
            let iset = &mut ctx.iset;
            let mut fails = |c: &runloop::RunloopSc| runloop::execute(c, iset, &names).violations.iter().any(|v| v.key() == key);
            let best = crate::minimise::shrink_runloop(&sc, &mut fails);
            serde_json::to_value(best).unwrap()
        }
        _ => scenario.clone(),
    }
}
