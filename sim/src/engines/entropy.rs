//! C12 / C13: randomised generators under a simulated entropy source. The draws
//! are the nondeterminism: a run is (parameters, word stream with fault layer)
//! and replays exactly. One run = one parameter point x S streams.
use crate::common::*;
use crate::gen::*;
use crate::rng::{derive, derive_n, Rng};
use crate::simenv::{self, EnvScript, Envelope};
use crate::spec::*;
use pushr::push::instructions::{InstructionCache, InstructionSet};
use pushr::push::interpreter::PushInterpreter;
use pushr::push::item::Item;
use pushr::push::parser::PushParser;
use pushr::push::random::CodeGenerator;
use pushr::push::state::PushState;
use serde::{Deserialize, Serialize};

#[derive(Serialize, Deserialize, Clone, Debug, PartialEq)]
pub enum Case {
    // ---- C13
    BoolVec { size: i32, sparsity: u32, via_instr: bool },
    IntVec { size: i32, min: i32, max: i32, via_instr: bool },
    FloatVec { size: i32, mean: u32, stddev: u32, via_instr: bool },
    Int { min: i32, max: i32, via_instr: bool },
    Float { min: u32, max: u32, via_instr: bool },
    BoundName { keys: Vec<String>, salt: u64 },
    Bool,
    // ---- C12
    CodeWithSize { points: usize, list: ListKind, bindings: usize, p_new: u32 },
    CodeBounded { max_points: usize, list: ListKind, bindings: usize },
    CodeRand { operand: i32, max_points_cfg: i32, bindings: usize },
    Decompose { n: usize },
}

#[derive(Serialize, Deserialize, Clone, Debug, PartialEq)]
pub enum ListKind {
    Empty,
    One,
    Full,
    /// one instruction of the registry, chosen by index (never NOOP)
    OneOf(usize),
    /// a few instructions of the registry starting at an index (NOOP left out)
    Few(usize, usize),
    /// names a user registered (`InstructionSet::add`): lower and mixed case, non-ASCII, no dot;
    /// with `true` one registry name beside them
    User(usize, bool),
}

#[derive(Serialize, Deserialize, Clone, Debug, PartialEq)]
pub struct EntropySc {
    pub seed: u64,
    pub case: Case,
    pub streams: u32,
    pub p_extreme: u32,
    pub p_repeat: u32,
    /// replay: run only this stream
    pub only_stream: Option<u32>,
}

const SPARS: &[f32] = &[0.0, 0.01, 0.1, 0.25, 0.49, 0.5, 0.51, 0.75, 0.99, 1.0];
const SPARS_BAD: &[f32] = &[-0.1, 1.1, f32::INFINITY, f32::NEG_INFINITY, f32::NAN, -0.0001, 1.0001];
const IBOUNDS: &[i32] = &[-10, -1, 0, 1, 10, i32::MIN, i32::MAX, i32::MIN + 1, i32::MAX - 1];
const FBOUNDS: &[f32] = &[-10.0, -1.0, 0.0, 1.0, 10.0, 1e30, -1e30, f32::MAX, f32::MIN, f32::INFINITY, f32::NEG_INFINITY, f32::NAN, 1e-30, 0.5];
const MEANS: &[f32] = &[0.0, 1.0, -1.0, 1e30, f32::INFINITY, f32::NEG_INFINITY, f32::NAN];
const DEVS: &[f32] = &[0.0, 1e-6, 1.0, 0.01, -1.0, f32::INFINITY, f32::NAN, -0.0, 1e30];

fn gen_size(r: &mut Rng) -> i32 {
    match r.below(12) {
        0 => -1,
        1 => *r.pick(&[-5, i32::MIN, -100]),
        2 => 0,
        3 => 1,
        4 => 2,
        5..=8 => r.range(3, 64) as i32,
        9 => 100,
        10 => 1000,
        _ => r.range(3, 16) as i32,
    }
}

pub fn generate(seed: u64, prop: &str, thorough: bool) -> EntropySc {
    let mut r = Rng::new(derive(seed, "entropy-case"));
    let via = r.chance(1, 2);
    let case = if prop == "C13" {
        match r.below(14) {
            0..=4 => {
                let sparsity = if r.chance(1, 6) { *r.pick(SPARS_BAD) } else if r.chance(1, 4) { r.unit() as f32 } else { *r.pick(SPARS) };
                Case::BoolVec { size: gen_size(&mut r), sparsity: sparsity.to_bits(), via_instr: via }
            }
            5..=6 => Case::IntVec { size: gen_size(&mut r), min: *r.pick(IBOUNDS), max: *r.pick(IBOUNDS), via_instr: via },
            7..=8 => Case::FloatVec { size: gen_size(&mut r), mean: r.pick(MEANS).to_bits(), stddev: r.pick(DEVS).to_bits(), via_instr: via },
            9..=10 => Case::Int { min: *r.pick(IBOUNDS), max: *r.pick(IBOUNDS), via_instr: via },
            11 => Case::Float { min: r.pick(FBOUNDS).to_bits(), max: r.pick(FBOUNDS).to_bits(), via_instr: via },
            12 => {
                let n = *r.pick(&[0usize, 1, 2, 5, 16]);
                let mut keys: Vec<String> = vec![];
                for k in 0..n {
                    keys.push(format!("{}{}", r.pick(NAME_POOL), k));
                }
                // the name the command-line front end binds: alone (the state every program starts
                // in there) or among others
                if r.chance(1, 3) {
                    if n <= 1 || r.chance(1, 2) {
                        keys = vec!["BIN".to_string()];
                    } else {
                        keys[0] = "BIN".to_string();
                    }
                }
                Case::BoundName { keys, salt: if r.chance(1, 2) { r.next() | 1 } else { 0 } }
            }
            _ => Case::Bool,
        }
    } else {
        let list = match r.below(8) {
            7 => ListKind::User(r.below(100_000) as usize, r.chance(1, 2)),
            0 => ListKind::Empty,
            1 => ListKind::One,
            2 => ListKind::OneOf(r.below(100_000) as usize),
            3 => ListKind::Few(r.below(100_000) as usize, 2 + r.below(6) as usize),
            _ => ListKind::Full,
        };
        let bindings = *r.pick(&[0usize, 0, 1, 5, 50]);
        match r.below(10) {
            0..=3 => Case::CodeWithSize {
                points: match r.below(8) {
                    0 => 1,
                    1 => 2,
                    2 => 3,
                    3..=5 => r.range(4, 60) as usize,
                    6 => r.range(60, 300) as usize,
                    _ => 1034,
                },
                list,
                bindings,
                p_new: r.pick(&[0.0f32, 0.001, 0.5, 1.0, 1.0001, 5.0, -0.001, f32::NAN, f32::INFINITY]).to_bits(),
            },
            4..=6 => Case::CodeBounded { max_points: r.below(66) as usize, list, bindings },
            7..=8 => Case::CodeRand {
                operand: *r.pick(&[0, 1, -1, 2, -2, 3, 25, -25, 26, -26, 1000, -1000, i32::MIN, i32::MAX, 7, 12]),
                max_points_cfg: *r.pick(&[0, 1, 2, 3, 25, -25, 100]),
                bindings,
            },
            _ => Case::Decompose { n: 1 + r.below(300) as usize },
        }
    };
    let faulted = r.chance(1, 2);
    // one vector case in 64 asks for a size where 32-bit index arithmetic on size x size or
    // size x share runs out (a few streams only: each draw fills 10^5 elements)
    let mut streams = if thorough { 256 } else { 96 };
    let case = match case {
        Case::BoolVec { sparsity, via_instr, .. } if r.chance(1, 64) => {
            streams = 4;
            Case::BoolVec { size: *r.pick(&[65_536, 92_700, 131_072]), sparsity, via_instr }
        }
        Case::IntVec { min, max, via_instr, .. } if r.chance(1, 64) => {
            streams = 4;
            Case::IntVec { size: *r.pick(&[65_536, 100_000]), min, max, via_instr }
        }
        c => c,
    };
    EntropySc {
        seed,
        case,
        streams,
        p_extreme: if faulted { *r.pick(&[10u32, 100, 400]) } else { 0 },
        p_repeat: if faulted { *r.pick(&[0u32, 50, 200]) } else { 0 },
        only_stream: None,
    }
}

fn v(prop: &str, class: &str, site: &str, detail: String) -> Violation {
    Violation {
        property: prop.into(),
        class: format!("oracle:{}", class),
        site: site.into(),
        detail,
        at_event: 0,
    }
}

fn plain_set() -> InstructionSet {
    let mut s = InstructionSet::new();
    s.load();
    s
}

fn state_with_bindings(n: usize) -> PushState {
    let mut st = PushState::new();
    for k in 0..n {
        // values of several kinds; a name bound to another (unbound) name must not be followed
        let v = match k % 4 {
            1 => Item::name(format!("alias-target{}", k)),
            2 => Item::list(vec![Item::name("inner".to_string()), Item::int(1)]),
            _ => Item::int(k as i32),
        };
        st.name_bindings.insert(format!("bound{}", k), v);
    }
    // bait: names that are on the NAME stack but not bound, floats outside [0,1) on the FLOAT
    // stack, and (every other table size) wide random-number ranges in the configuration: the
    // leaves of generated code come from the bindings and from [0,1), not from any of these
    // the name the command-line front end always binds is a binding like any other
    if n % 5 == 0 || n == 1 {
        st.name_bindings.insert("BIN".to_string(), Item::name("/usr/bin/pushr".to_string()));
    }
    if n == 50 {
        // an empty range of random integers says nothing about where leaves come from
        st.configuration.max_random_integer = 7;
        st.configuration.min_random_integer = 7;
    }
    for stale in ["stale-name", "x", "🦀"] {
        st.name_stack.push(stale.to_string());
    }
    st.float_stack.push(7.5);
    st.float_stack.push(-3.0);
    if n % 2 == 1 {
        st.configuration.max_random_float = 100.0;
        st.configuration.min_random_float = -100.0;
        st.configuration.max_random_integer = 1000;
        st.configuration.min_random_integer = -1000;
    }
    st
}

/// Accepted TRUE counts for BOOLVECTOR.RAND (documented rounding: two-decimal
/// rounding of min(s, 1-s), truncation of the product; plain readings too).
fn accepted_counts(s: f32, n: i32) -> Vec<i64> {
    let mut out = vec![];
    let nf = n as f64;
    let r2 = |x: f64| (x * 100.0).round() / 100.0;
    let s64 = s as f64;
    for share in [s64, r2(s64), 1.0 - r2(1.0 - s64), (s * 1.0) as f64] {
        let x = share * nf;
        for c in [x.floor(), x.ceil(), x.round()] {
            out.push(c as i64);
        }
        let x32 = (share as f32) * (n as f32);
        out.push(x32 as i64);
    }
    // the implementation's own route through the complement
    let m = f32::min(s, 1.0 - s);
    let m = (100.0 * m).round() / 100.0;
    let k = (m * n as f32) as i64;
    out.push(if s > 0.5 { n as i64 - k } else { k });
    out.sort();
    out.dedup();
    out.retain(|c| *c >= 0 && *c <= n as i64);
    out
}

fn instr_list(kind: &ListKind, full: &[String]) -> Vec<String> {
    let no_noop: Vec<String> = full.iter().filter(|n| n.as_str() != "NOOP").cloned().collect();
    match kind {
        ListKind::Empty => vec![],
        ListKind::One => vec!["INTEGER.+".to_string()],
        ListKind::Full => full.to_vec(),
        ListKind::OneOf(k) => vec![no_noop[k % no_noop.len()].clone()],
        ListKind::Few(k, n) => (0..*n).map(|j| no_noop[(k + j * 37) % no_noop.len()].clone()).collect(),
        ListKind::User(k, with_registry) => {
            const USER: &[&str] = &["exec.bump", "My.Instr", "robot.TURN*left", "ÄPFEL.ADD", "x", "integer.+", "Code.Quote", "noop"];
            let n = 1 + k % 3;
            let mut v: Vec<String> = (0..n).map(|j| USER[(k / 3 + j * 3) % USER.len()].to_string()).collect();
            if *with_registry {
                v.push(no_noop[k % no_noop.len()].clone());
            }
            v
        }
    }
}

fn collect_names(item: &Item, out: &mut std::collections::BTreeSet<String>) {
    match item {
        Item::List { items } => {
            for i in 0..items.size() {
                collect_names(items.get(i).unwrap(), out);
            }
        }
        Item::Identifier { name } => {
            out.insert(name.clone());
        }
        _ => {}
    }
}

/// Names that occur in the state without being bound.
fn stale_names(st: &PushState) -> std::collections::BTreeSet<String> {
    let mut all = std::collections::BTreeSet::new();
    for i in 0..st.name_stack.size() {
        all.insert(st.name_stack.get(i).unwrap().clone());
    }
    for (_, v) in st.name_bindings.iter() {
        collect_names(v, &mut all);
    }
    for i in 0..st.code_stack.size() {
        collect_names(st.code_stack.get(i).unwrap(), &mut all);
    }
    for i in 0..st.exec_stack.size() {
        collect_names(st.exec_stack.get(i).unwrap(), &mut all);
    }
    all.retain(|n| st.name_bindings.get(n).is_none());
    all
}

#[allow(dead_code)]
fn is_seam_name(s: &str) -> bool {
    let parts: Vec<&str> = s.split('-').collect();
    parts.len() == 3
        && ["aged", "bold", "calm", "dark", "eager", "faint", "glad", "hazy", "icy", "jolly", "keen", "lucky", "mute", "neat", "odd", "pale"].contains(&parts[0])
        && parts[2].chars().all(|c| c.is_ascii_digit())
}

struct LeafCtx<'a> {
    list: &'a [String],
    st: &'a PushState,
    p_new: f32,
}

fn check_leaves(item: &Item, c: &LeafCtx, out: &mut Vec<String>) {
    use pushr::push::item::PushType;
    match item {
        Item::List { items } => {
            for i in 0..items.size() {
                check_leaves(items.get(i).unwrap(), c, out);
            }
        }
        Item::InstructionMeta { name } => {
            if c.list.is_empty() {
                if name != "NOOP" {
                    out.push(format!("instruction leaf {} although the instruction list is empty (NOOP expected)", name));
                }
            } else if !c.list.iter().any(|n| n == name) {
                out.push(format!("instruction leaf {} is not in the supplied instruction list", name));
            }
        }
        Item::Identifier { name } => {
            let bound = c.st.name_bindings.get(name).is_some();
            // "new" = a name the state does not know: how fresh names look is the generator's business.
            // An unbound name that lies around elsewhere in the state (NAME stack, inside a binding's
            // value, in code) is neither currently bound nor new.
            if !bound && stale_names(c.st).contains(name) {
                out.push(format!("name leaf {:?} is neither bound nor new (it occurs elsewhere in the state without being bound)", name));
            }
            if !bound && c.p_new == 0.0 && c.st.name_bindings.len() > 0 {
                out.push(format!("new name {:?} drawn although the new-name probability is 0 and bindings exist", name));
            }
        }
        Item::Literal { push_type } => match push_type {
            PushType::Bool { .. } | PushType::Int { .. } => {}
            PushType::Float { val } => {
                if !(*val >= 0.0 && *val < 1.0) {
                    out.push(format!("float leaf {} outside [0,1)", val));
                }
            }
            other => out.push(format!("unexpected literal leaf kind {:?}", other)),
        },
    }
}

pub struct Executed {
    pub violations: Vec<Violation>,
    pub stats: RunStats,
}

fn env_for(sc: &EntropySc, k: u32, budget: u64) -> EnvScript {
    let mut e = EnvScript::quiet(derive_n(sc.seed, "stream", k as u64));
    e.p_extreme = sc.p_extreme;
    e.p_repeat = sc.p_repeat;
    e.draw_budget = budget;
    e
}

/// Runs `f` as one stream under the simulated entropy; returns its result or the
/// violation an unwind amounts to.
fn stream<R>(sc: &EntropySc, k: u32, budget: u64, salt: u64, prop: &str, site: &str, stats: &mut RunStats, f: impl FnOnce() -> R) -> Result<R, Violation> {
    let mut env = env_for(sc, k, budget);
    env.map_salt = salt;
    simenv::begin(&env, Envelope::off(), &[], None);
    let r = caught(f);
    let core = simenv::end();
    stats.draws += core.draws;
    stats.steps += 1;
    for (kk, vv) in &core.faults {
        *stats.faults.entry(kk.to_string()).or_insert(0) += vv;
    }
    stats.log_hash ^= core.draws.wrapping_mul(0x9E37_79B9_7F4A_7C15).rotate_left(k % 63);
    match r {
        Ok(x) => Ok(x),
        Err(p) => {
            if p.msg.contains(simenv::BUDGET_PANIC) {
                Err(Violation {
                    property: prop.into(),
                    class: "hang".into(),
                    site: format!("{}: entropy draws exceed the budget", site),
                    detail: format!("more than {} words drawn (stream {})", budget, k),
                    at_event: k as u64,
                })
            } else {
                Err(Violation {
                    property: prop.into(),
                    class: "panic".into(),
                    site: panic_site(site, &p),
                    detail: format!("{} at {}:{} (stream {})", p.msg, p.file, p.line, k),
                    at_event: k as u64,
                })
            }
        }
    }
}

pub fn execute(sc: &EntropySc, full_list: &[String]) -> Executed {
    let mut stats = RunStats::default();
    let mut vs: Vec<Violation> = vec![];
    let streams: Vec<u32> = match sc.only_stream {
        Some(k) => vec![k],
        None => (0..sc.streams).collect(),
    };
    let mut iset = plain_set();
    let cache = iset.cache();
    let mut digest: u64 = 0xcbf2_9ce4_8422_2325;
    let mut mix = |x: u64| {
        digest ^= x;
        digest = digest.wrapping_mul(0x0000_0100_0000_01B3);
    };
    let push = |vs: &mut Vec<Violation>, x: Violation| {
        if !vs.iter().any(|y| y.key() == x.key()) {
            vs.push(x);
        }
    };
    match &sc.case {
        Case::BoolVec { size, sparsity, via_instr } => {
            let s = f32::from_bits(*sparsity);
            let valid = *size >= 0 && s >= 0.0 && s <= 1.0;
            let site = if *via_instr { "BOOLVECTOR.RAND" } else { "random_bool_vector" };
            let mut touched = vec![false; (*size).max(0) as usize];
            let default = s > 0.5;
            let acc = if valid { accepted_counts(s, *size) } else { vec![] };
            let budget = 64 * (*size).max(0) as u64 + 64;
            let mut produced = 0u32;
            for k in &streams {
                let res = stream(sc, *k, budget, 0, "C13", site, &mut stats, || {
                    if *via_instr {
                        let mut st = PushState::new();
                        st.int_stack.push(*size);
                        st.float_stack.push(s);
                        st.exec_stack.push(Item::instruction("BOOLVECTOR.RAND".into()));
                        PushInterpreter::step(&mut st, &mut iset, &cache);
                        let r = st.bool_vector_stack.get(0).map(|b| b.values.clone());
                        (r, st.int_stack.size() + st.float_stack.size())
                    } else {
                        (CodeGenerator::random_bool_vector(*size, s).map(|b| b.values), 0)
                    }
                });
                match res {
                    Err(x) => push(&mut vs, x),
                    Ok((None, left)) => {
                        if valid {
                            push(&mut vs, v("C13", "missing", site, format!("no vector for valid size {} sparsity {}", size, s)));
                        }
                        // (whether refused operands stay on their stacks is left open by the statement)
                        let _ = left;
                    }
                    Ok((Some(bits), _)) => {
                        produced += 1;
                        if !valid {
                            push(&mut vs, v("C13", "invalid-accepted", site, format!("a vector of length {} was produced for invalid parameters size {} sparsity {}", bits.len(), size, s)));
                            continue;
                        }
                        if bits.len() != *size as usize {
                            push(&mut vs, v("C13", "length", site, format!("length {} for requested size {}", bits.len(), size)));
                        }
                        let c = bits.iter().filter(|b| **b).count() as i64;
                        if !acc.contains(&c) {
                            push(&mut vs, v("C13", "count", site, format!("{} TRUE bits for size {} sparsity {}; accepted {:?}", c, size, s, acc)));
                        }
                        for (i, b) in bits.iter().enumerate() {
                            if *b != default && i < touched.len() {
                                touched[i] = true;
                            }
                        }
                        mix(c as u64 ^ (bits.len() as u64) << 32);
                    }
                }
            }
            // reachability: every position can be the non-default one
            if valid && *size >= 2 && sc.only_stream.is_none() && produced > 0 {
                let n = *size as f64;
                let m = f32::min(s, 1.0 - s);
                let kflip = (((100.0 * m).round() / 100.0) * *size as f32) as i64;
                if kflip >= 1 {
                    let miss = n * (1.0 - kflip as f64 / n).powi(produced as i32);
                    if miss < 1e-12 {
                        stats.probes.insert("reachability_checked".into(), 1);
                        if let Some(pos) = touched.iter().position(|t| !*t) {
                            push(&mut vs, v("C13", "reachability", site, format!("position {} of {} never became non-default in {} draws (size {}, sparsity {}, {} flips per draw; chance for a fair sampler {:.1e})", pos, size, produced, size, s, kflip, miss)));
                        }
                    }
                }
            }
        }
        Case::IntVec { size, min, max, via_instr } => {
            let valid = *size >= 0 && max > min;
            let site = if *via_instr { "INTVECTOR.RAND" } else { "random_int_vector" };
            for k in &streams {
                let res = stream(sc, *k, 8 * (*size).max(0) as u64 + 64, 0, "C13", site, &mut stats, || {
                    if *via_instr {
                        let mut st = PushState::new();
                        st.int_stack.push(*min);
                        st.int_stack.push(*max);
                        st.int_stack.push(*size);
                        st.exec_stack.push(Item::instruction("INTVECTOR.RAND".into()));
                        PushInterpreter::step(&mut st, &mut iset, &cache);
                        st.int_vector_stack.get(0).map(|b| b.values.clone())
                    } else {
                        CodeGenerator::random_int_vector(*size, *min, *max).map(|b| b.values)
                    }
                });
                match res {
                    Err(x) => push(&mut vs, x),
                    Ok(None) => {
                        if valid {
                            push(&mut vs, v("C13", "missing", site, format!("no vector for valid size {} min {} max {}", size, min, max)));
                        }
                    }
                    Ok(Some(vals)) => {
                        if !valid {
                            push(&mut vs, v("C13", "invalid-accepted", site, format!("vector produced for invalid parameters size {} min {} max {}", size, min, max)));
                            continue;
                        }
                        if vals.len() != *size as usize {
                            push(&mut vs, v("C13", "length", site, format!("length {} for size {}", vals.len(), size)));
                        }
                        if let Some(bad) = vals.iter().find(|x| **x < *min || **x >= *max) {
                            push(&mut vs, v("C13", "range", site, format!("element {} outside [{}, {})", bad, min, max)));
                        }
                        mix(vals.iter().fold(0u64, |a, x| a.wrapping_mul(31).wrapping_add(*x as u64)));
                    }
                }
            }
        }
        Case::FloatVec { size, mean, stddev, via_instr } => {
            let (m, d) = (f32::from_bits(*mean), f32::from_bits(*stddev));
            let valid = *size >= 0 && d >= 0.0 && d.is_finite();
            let clearly_invalid = *size < 0 || d < 0.0 || !d.is_finite();
            let site = if *via_instr { "FLOATVECTOR.RAND" } else { "random_float_vector" };
            for k in &streams {
                let res = stream(sc, *k, 64 * (*size).max(0) as u64 + 64, 0, "C13", site, &mut stats, || {
                    if *via_instr {
                        let mut st = PushState::new();
                        st.int_stack.push(*size);
                        st.float_stack.push(d);
                        st.float_stack.push(m);
                        st.exec_stack.push(Item::instruction("FLOATVECTOR.RAND".into()));
                        PushInterpreter::step(&mut st, &mut iset, &cache);
                        st.float_vector_stack.get(0).map(|b| b.values.clone())
                    } else {
                        CodeGenerator::random_float_vector(*size, m, d).map(|b| b.values)
                    }
                });
                match res {
                    Err(x) => push(&mut vs, x),
                    Ok(None) => {
                        // a non-finite mean may legitimately be refused too
                        if valid && m.is_finite() {
                            push(&mut vs, v("C13", "missing", site, format!("no vector for valid size {} mean {} stddev {}", size, m, d)));
                        }
                    }
                    Ok(Some(vals)) => {
                        if clearly_invalid {
                            push(&mut vs, v("C13", "invalid-accepted", site, format!("vector produced for invalid parameters size {} mean {} stddev {}", size, m, d)));
                            continue;
                        }
                        if vals.len() != *size as usize {
                            push(&mut vs, v("C13", "length", site, format!("length {} for size {}", vals.len(), size)));
                        }
                        mix(vals.len() as u64);
                    }
                }
            }
        }
        Case::Int { min, max, via_instr } => {
            let valid = min < max;
            let site = if *via_instr { "INTEGER.RAND" } else { "random_integer" };
            for k in &streams {
                let res = stream(sc, *k, 64, 0, "C13", site, &mut stats, || {
                    let mut st = PushState::new();
                    st.configuration.min_random_integer = *min;
                    st.configuration.max_random_integer = *max;
                    if *via_instr {
                        st.exec_stack.push(Item::instruction("INTEGER.RAND".into()));
                        PushInterpreter::step(&mut st, &mut iset, &cache);
                        st.int_stack.get(0).cloned()
                    } else {
                        CodeGenerator::random_integer(&st)
                    }
                });
                match res {
                    Err(x) => push(&mut vs, x),
                    Ok(None) => {
                        if valid {
                            push(&mut vs, v("C13", "missing", site, format!("no value for min {} < max {}", min, max)));
                        }
                    }
                    Ok(Some(x)) => {
                        if !valid {
                            push(&mut vs, v("C13", "invalid-accepted", site, format!("value {} for min {} >= max {}", x, min, max)));
                        } else if x < *min || x >= *max {
                            push(&mut vs, v("C13", "range", site, format!("value {} outside [{}, {})", x, min, max)));
                        }
                        mix(x as u64);
                    }
                }
            }
        }
        Case::Float { min, max, via_instr } => {
            let (lo, hi) = (f32::from_bits(*min), f32::from_bits(*max));
            let valid = lo < hi;
            let site = if *via_instr { "FLOAT.RAND" } else { "random_float" };
            for k in &streams {
                let res = stream(sc, *k, 256, 0, "C13", site, &mut stats, || {
                    let mut st = PushState::new();
                    st.configuration.min_random_float = lo;
                    st.configuration.max_random_float = hi;
                    if *via_instr {
                        st.exec_stack.push(Item::instruction("FLOAT.RAND".into()));
                        PushInterpreter::step(&mut st, &mut iset, &cache);
                        st.float_stack.get(0).cloned()
                    } else {
                        CodeGenerator::random_float(&st)
                    }
                });
                match res {
                    Err(x) => push(&mut vs, x),
                    Ok(None) => {
                        // an interval whose width is not representable may be refused
                        if valid && (hi - lo).is_finite() {
                            push(&mut vs, v("C13", "missing", site, format!("no value for min {} < max {}", lo, hi)));
                        }
                    }
                    Ok(Some(x)) => {
                        if !valid {
                            push(&mut vs, v("C13", "invalid-accepted", site, format!("value {} for min {} max {}", x, lo, hi)));
                        } else if !(x >= lo && x < hi) {
                            push(&mut vs, v("C13", "range", site, format!("value {} outside [{}, {})", x, lo, hi)));
                        }
                        mix(x.to_bits() as u64);
                    }
                }
            }
        }
        Case::BoundName { keys, salt } => {
            for k in &streams {
                let via = *k % 2 == 0;
                let res = stream(sc, *k, 64, *salt, "C13", "NAME.RANDBOUNDNAME", &mut stats, || {
                    let mut st = PushState::new();
                    for (j, key) in keys.iter().enumerate() {
                        // values of every kind: a name bound to a name, a list or an instruction is as bound as any
                        let val = match j % 5 {
                            0 => Item::int(1),
                            1 => Item::name(format!("alias{}", j)),
                            2 => Item::list(vec![Item::int(2), Item::name("q".to_string())]),
                            3 => Item::instruction("INTEGER.+".to_string()),
                            _ => Item::float(0.5),
                        };
                        st.name_bindings.insert(key.clone(), val);
                    }
                    if via {
                        st.exec_stack.push(Item::instruction("NAME.RANDBOUNDNAME".into()));
                        PushInterpreter::step(&mut st, &mut iset, &cache);
                        st.name_stack.get(0).cloned()
                    } else {
                        Some(CodeGenerator::existing_random_name(&st))
                    }
                });
                match res {
                    Err(x) => push(&mut vs, x),
                    // (with no name bound the statement asks for nothing: a fresh name and no push are both fine)
                    Ok(None) => {
                        if !keys.is_empty() {
                            push(&mut vs, v("C13", "missing", "NAME.RANDBOUNDNAME", format!("no name pushed although {} names are bound", keys.len())))
                        }
                    }
                    Ok(Some(n)) => {
                        if !keys.is_empty() && !keys.contains(&n) {
                            push(&mut vs, v("C13", "bound-name", "NAME.RANDBOUNDNAME", format!("{:?} is not one of the {} bound names", n, keys.len())));
                        }
                        mix(crate::rng::fnv1a(n.as_bytes()));
                    }
                }
            }
        }
        Case::Bool => {
            let mut seen = [false; 2];
            for k in &streams {
                let res = stream(sc, *k, 64, 0, "C13", "BOOLEAN.RAND", &mut stats, || {
                    let mut st = PushState::new();
                    st.exec_stack.push(Item::instruction("BOOLEAN.RAND".into()));
                    PushInterpreter::step(&mut st, &mut iset, &cache);
                    st.bool_stack.get(0).cloned()
                });
                match res {
                    Err(x) => push(&mut vs, x),
                    Ok(None) => push(&mut vs, v("C13", "missing", "BOOLEAN.RAND", "no value pushed".into())),
                    Ok(Some(b)) => seen[b as usize] = true,
                }
            }
            mix(seen[0] as u64 + 2 * seen[1] as u64);
        }
        // ------------------------------------------------------------- C12
        Case::CodeWithSize { points, list, bindings, p_new } => {
            let lst: Vec<String> = instr_list(list, full_list);
            let icache = InstructionCache::new(lst.clone());
            let pn = f32::from_bits(*p_new);
            for k in &streams {
                let mut st = state_with_bindings(*bindings);
                st.configuration.new_erc_name_probability = pn;
                let res = stream(sc, *k, 64 * *points as u64 + 256, 0, "C12", "random_code_with_size", &mut stats, || {
                    CodeGenerator::random_code_with_size(&st, &icache, *points)
                });
                match res {
                    Err(x) => push(&mut vs, x),
                    Ok(item) => {
                        let sz = Item::size(&item);
                        if sz != *points {
                            push(&mut vs, v("C12", "size", "random_code_with_size", format!("{} points generated for a request of {}", sz, points)));
                        }
                        let mut probs = vec![];
                        check_leaves(&item, &LeafCtx { list: &lst, st: &st, p_new: pn }, &mut probs);
                        if let Some(p) = probs.first() {
                            push(&mut vs, v("C12", "leaf", "random_code_with_size", p.clone()));
                        }
                        mix(crate::rng::fnv1a(item.to_string().as_bytes()));
                        if *k < 8 {
                            if let Some(x) = exec_and_print(sc, *k, &item, &mut stats) {
                                push(&mut vs, x);
                            }
                        }
                    }
                }
            }
        }
        Case::CodeBounded { max_points, list, bindings } => {
            let lst: Vec<String> = instr_list(list, full_list);
            let icache = InstructionCache::new(lst.clone());
            for k in &streams {
                let st = state_with_bindings(*bindings);
                let res = stream(sc, *k, 64 * *max_points as u64 + 256, 0, "C12", "random_code", &mut stats, || {
                    CodeGenerator::random_code(&st, &icache, *max_points)
                });
                match res {
                    Err(x) => push(&mut vs, x),
                    Ok(None) => {
                        if *max_points >= 2 {
                            push(&mut vs, v("C12", "missing", "random_code", format!("nothing generated for bound {}", max_points)));
                        }
                    }
                    Ok(Some(item)) => {
                        let sz = Item::size(&item);
                        if *max_points < 2 {
                            push(&mut vs, v("C12", "bound", "random_code", format!("{} points generated for bound {} (nothing expected)", sz, max_points)));
                        } else if sz < 1 || sz > *max_points - 1 {
                            push(&mut vs, v("C12", "bound", "random_code", format!("{} points generated for bound {} (1..={} expected)", sz, max_points, max_points - 1)));
                        }
                        mix(sz as u64);
                    }
                }
            }
        }
        Case::CodeRand { operand, max_points_cfg, bindings } => {
            let lim = std::cmp::min(operand.unsigned_abs(), max_points_cfg.unsigned_abs()) as usize;
            for k in &streams {
                let res = stream(sc, *k, 64 * lim as u64 + 256, 0, "C12", "CODE.RAND", &mut stats, || {
                    let mut st = state_with_bindings(*bindings);
                    st.configuration.max_points_in_random_expressions = *max_points_cfg;
                    // bystanders below the operand: they must stay and must not influence the size
                    st.int_stack.push(40);
                    st.int_stack.push(41);
                    st.int_stack.push(*operand);
                    st.exec_stack.push(Item::instruction("CODE.RAND".into()));
                    PushInterpreter::step(&mut st, &mut iset, &cache);
                    (st.code_stack.get(0).cloned(), st.int_stack.size(), st.code_stack.size())
                });
                match res {
                    Err(x) => push(&mut vs, x),
                    Ok((item, ints, codes)) => {
                        // (how many INTEGER items the instruction takes is not part of the statement; the size
                        // limit below is stated against the top one)
                        let _ = ints;
                        if codes > 1 {
                            push(&mut vs, v("C12", "operands", "CODE.RAND", format!("{} items pushed", codes)));
                        }
                        if let Some(item) = item {
                            let sz = Item::size(&item);
                            if sz > lim {
                                push(&mut vs, v("C12", "bound", "CODE.RAND", format!("{} points for operand {} and max-points-in-random-expressions {} (limit {})", sz, operand, max_points_cfg, lim)));
                            }
                            let mut probs = vec![];
                            let st = state_with_bindings(*bindings);
                            check_leaves(&item, &LeafCtx { list: &cache.list, st: &st, p_new: 0.001 }, &mut probs);
                            if let Some(p) = probs.first() {
                                push(&mut vs, v("C12", "leaf", "CODE.RAND", p.clone()));
                            }
                            mix(sz as u64);
                        }
                    }
                }
            }
        }
        Case::Decompose { n } => {
            for k in &streams {
                let res = stream(sc, *k, 8 * *n as u64 + 64, 0, "C12", "decompose", &mut stats, || {
                    let mut parts: Vec<usize> = vec![];
                    CodeGenerator::decompose(&mut parts, *n);
                    parts
                });
                match res {
                    Err(x) => push(&mut vs, x),
                    Ok(parts) => {
                        if parts.iter().any(|p| *p < 1) || parts.iter().sum::<usize>() != *n {
                            push(&mut vs, v("C12", "decompose", "decompose", format!("parts {:?} for a request of {}", parts, n)));
                        }
                        mix(parts.len() as u64);
                    }
                }
            }
        }
    }
    stats.digest = digest;
    stats.nontrivial = stats.steps > 0;
    stats.outcome = case_name(&sc.case).to_string();
    stats.events = stats.steps;
    Executed { violations: vs, stats }
}

pub fn case_name(c: &Case) -> &'static str {
    match c {
        Case::BoolVec { .. } => "boolvec",
        Case::IntVec { .. } => "intvec",
        Case::FloatVec { .. } => "floatvec",
        Case::Int { .. } => "int",
        Case::Float { .. } => "float",
        Case::BoundName { .. } => "boundname",
        Case::Bool => "bool",
        Case::CodeWithSize { .. } => "code_with_size",
        Case::CodeBounded { .. } => "code_bounded",
        Case::CodeRand { .. } => "code_rand",
        Case::Decompose { .. } => "decompose",
    }
}

/// C12's last clause: every generated program is executable (here: run() under
/// the simulated environment does not unwind) and printable (print -> parse ->
/// print is a fixed point).
fn exec_and_print(sc: &EntropySc, k: u32, item: &Item, stats: &mut RunStats) -> Option<Violation> {
    let text = item.to_string();
    let mut iset = plain_set();
    // printable
    let r = caught(|| {
        let mut st = PushState::new();
        PushParser::parse_program(&mut st, &iset, &text);
        st.exec_stack.to_string()
    });
    match r {
        Err(p) => {
            return Some(Violation {
                property: "C12".into(),
                class: "panic".into(),
                site: panic_site("<parse generated program>", &p),
                detail: format!("{}; program {}", p.msg, text.chars().take(200).collect::<String>()),
                at_event: k as u64,
            })
        }
        Ok(t2) => {
            if t2 != text {
                return Some(v("C12", "print-parse-print", "generated program", format!("printed {:?} parses and prints as {:?}", text.chars().take(160).collect::<String>(), t2.chars().take(160).collect::<String>())));
            }
        }
    }
    // executable (a small envelope: generated code may contain anything)
    let mut env = env_for(sc, 10_000 + k, 2_000_000);
    env.p_spawn_fail = 500;
    let (mut wset, names) = simenv::wrapped_set();
    let mut e = Envelope::standard();
    e.e_events = 400;
    simenv::begin(&env, e, &names, None);
    let mut st = PushState::new();
    st.exec_stack.push(item.clone());
    let r = caught(|| {
        let _ = PushInterpreter::run(&mut st, &mut wset);
    });
    let core = simenv::end();
    stats.probes.insert("generated_programs_executed".into(), stats.probes.get("generated_programs_executed").cloned().unwrap_or(0) + 1);
    let _ = &mut iset;
    if let Err(p) = r {
        let instr = core.cur_instr.map(|i| core.names[i].clone()).unwrap_or_else(|| "<step>".into());
        if !p.msg.contains(simenv::BUDGET_PANIC) {
            return Some(Violation {
                property: "C12".into(),
                class: "panic".into(),
                site: panic_site(&format!("generated program: {}", instr), &p),
                detail: format!("{} at {}:{}; program {}", p.msg, p.file, p.line, text.chars().take(200).collect::<String>()),
                at_event: k as u64,
            });
        }
    }
    None
}
