//! C14 (a) and (c): determinism and isolation between interpreter instances.
//! A subject (RAND-free, graph-free program on a state) is run alone, then as
//! several copies among noise tasks, interleaved by a seeded scheduler at every
//! instruction boundary of one OS thread; every copy must end exactly as the
//! solo run. The map-order salt differs per task and changes at every switch.
use crate::common::*;
use crate::gen::*;
use crate::rng::{derive, Rng};
use crate::simenv::{self, EnvScript, Envelope, Hooks};
use crate::spec::*;
use crate::statecode;
use pushr::push::instructions::InstructionSet;
use pushr::push::interpreter::PushInterpreter;
use pushr::push::state::PushState;
use pushr::push::verif_seam as seam;
use serde::{Deserialize, Serialize};

#[derive(Serialize, Deserialize, Clone, Debug, PartialEq)]
pub struct TaskSpec {
    pub cfg: ConfigSpec,
    pub state: StateSpec,
    pub prog: Vec<ISpec>,
    pub salt: u64,
}

#[derive(Serialize, Deserialize, Clone, Debug, PartialEq)]
pub struct IsoSc {
    pub seed: u64,
    pub subject: TaskSpec,
    pub copies: usize,
    pub noise: Vec<TaskSpec>,
    /// noise steps executed before the subject copies start
    pub warmup: u32,
    /// seed of the scheduler (who moves next)
    pub sched_seed: u64,
    /// subject copies share one instruction set (exposes stateful closures)
    pub share_iset: bool,
    /// one copy runs under the real run() with the others intruding at its
    /// instruction boundaries
    pub run_with_intrusions: bool,
    pub env_seed: u64,
    pub program_text: String,
}

/// Outside the statement's quantifier: RAND instructions, anything that exposes
/// graph node ids, and the shell-out.
pub fn excluded(instrs: &[String]) -> Vec<String> {
    instrs
        .iter()
        .filter(|n| n.contains("RAND") || n.starts_with("GRAPH.") || n.as_str() == "EXEC.CMD")
        .cloned()
        .collect()
}

fn subject_task(seed: u64, instrs: &[String]) -> TaskSpec {
    let mut r = Rng::new(derive(seed, "subject"));
    let mut ctx = GenCtx::new(instrs);
    ctx.exclude = excluded(instrs);
    let mut cfg = ConfigSpec::default_cfg();
    cfg.eval_push_limit = *r.pick(&[30, 100, 300]);
    let mut state = gen_state(&mut Rng::new(derive(seed, "state")), &mut ctx);
    state.graphs.clear();
    for x in state.ints.iter_mut() {
        if let IntSpec::NodeId { .. } = x {
            *x = IntSpec::V(1);
        }
    }
    let fam = r.below(4);
    let prog = if fam == 3 {
        // operand-fed: a few instructions (swarm focus) each preceded by small numeric
        // operands, so that value-dependent paths (and anything remembered about the
        // values) are exercised again and again with nearby arguments
        let focus: Vec<String> = (0..(1 + r.below(3)))
            .map(|_| loop {
                let n = r.pick(instrs);
                if ctx.allowed(n) {
                    break n.clone();
                }
            })
            .collect();
        let mut v = vec![];
        for _ in 0..(2 + r.below(6)) {
            for _ in 0..4 {
                v.push(ISpec::Int(match r.below(4) {
                    0 => r.range(0, 4) as i32,
                    1 => *r.pick(&[8, 9, 16, 25, 27, 36, 64]),
                    _ => r.range(1, 14) as i32,
                }));
            }
            for _ in 0..2 {
                v.push(ISpec::F(((r.below(13) as f32) * 0.25).to_bits()));
            }
            v.push(ISpec::I(r.pick(&focus).clone()));
        }
        vec![ISpec::L(v)]
    } else if fam < 2 {
        grammar_program(&mut r, &ctx)
    } else {
        // name-heavy: definitions and lookups travel through the bindings map
        let mut v = vec![];
        for _ in 0..(4 + r.below(12)) {
            match r.below(5) {
                0 => {
                    v.push(ISpec::Int(gen_small_int(&mut r)));
                    v.push(ISpec::N(r.pick(NAME_POOL).to_string()));
                    v.push(i("INTEGER.DEFINE"));
                }
                1 => v.push(ISpec::N(r.pick(NAME_POOL).to_string())),
                2 => v.push(i("NAME.QUOTE")),
                3 => v.push(i("CODE.DEFINITION")),
                _ => v.push(ctx.instr(&mut r)),
            }
        }
        vec![ISpec::L(v)]
    };
    // a large (but legal) binding table, one subject in 32: whatever happens to it as a whole
    // (trimming, rehashing, spilling) must not depend on the order the map hands its entries out
    let mut prog = prog;
    if r.chance(1, 32) {
        let n = 250 + r.below(80) as usize;
        for j in 0..n {
            state.bindings.push((format!("nb{}", j), ISpec::Int(j as i32)));
        }
        let mut v = vec![];
        for k in 0..(6 + r.below(10)) {
            v.push(ISpec::Int(1000 + k as i32));
            v.push(ISpec::N(format!("fresh{}", k)));
            v.push(i("INTEGER.DEFINE"));
        }
        for _ in 0..12 {
            v.push(ISpec::N(format!("nb{}", r.below(n as u64))));
        }
        v.extend(prog.drain(..));
        prog = vec![ISpec::L(v)];
    }
    TaskSpec {
        cfg,
        state,
        prog,
        salt: 0,
    }
}

fn noise_task(seed: u64, instrs: &[String]) -> TaskSpec {
    let mut r = Rng::new(derive(seed, "noise"));
    let mut ctx = GenCtx::new(instrs);
    // noise may do anything but shell out: RAND-heavy, graph-building, bindings, IO
    ctx.exclude = vec!["EXEC.CMD".to_string()];
    let rf = rand_family(instrs);
    let gf: Vec<String> = instrs.iter().filter(|n| n.starts_with("GRAPH.")).cloned().collect();
    ctx.focus = if r.chance(1, 2) { rf } else { gf };
    let cfg = gen_config(&mut Rng::new(derive(seed, "cfg")));
    let state = gen_state(&mut Rng::new(derive(seed, "state")), &mut ctx);
    let mut v = vec![i("GRAPH.ADD")];
    for _ in 0..(5 + r.below(25)) {
        v.push(if r.chance(2, 3) { ctx.instr(&mut r) } else { ctx.literal(&mut r) });
        if r.chance(1, 5) {
            v.push(ISpec::Int(gen_small_int(&mut r)));
            v.push(i("GRAPH.NODE*ADD"));
        }
        if r.chance(1, 12) {
            // a copy keeps growing (the registry has no way back to the original)
            v.extend([i("GRAPH.DUP"), ISpec::Int(1), i("GRAPH.NODE*ADD"), ISpec::Int(2), i("GRAPH.NODE*ADD")]);
        }
    }
    TaskSpec {
        cfg,
        state,
        prog: vec![ISpec::L(vec![i("EXEC.Y"), ISpec::L(v)])],
        salt: r.next() | 1,
    }
}

/// Twin kinds: 0 = floats nudged by ~0.1 %, 1 = floats shifted by a fraction
/// (same integer part, different value), 2 = integers +-1.
fn perturb_item(x: &ISpec, r: &mut Rng, kind: u8) -> ISpec {
    match x {
        ISpec::L(v) => ISpec::L(v.iter().map(|c| perturb_item(c, r, kind)).collect()),
        ISpec::F(b) if kind < 2 => ISpec::F(perturb_f(*b, r, kind)),
        ISpec::Int(i) if kind == 2 => ISpec::Int(i.wrapping_add(if r.chance(1, 2) { 1 } else { -1 })),
        ISpec::FV(v) if kind < 2 => ISpec::FV(v.iter().map(|b| perturb_f(*b, r, kind)).collect()),
        ISpec::IV(v) if kind == 2 => ISpec::IV(v.iter().map(|i| i.wrapping_add(1)).collect()),
        other => other.clone(),
    }
}

fn perturb_f(bits: u32, r: &mut Rng, kind: u8) -> u32 {
    let f = f32::from_bits(bits);
    if !f.is_finite() {
        return bits;
    }
    let g = if kind == 0 {
        f * (1.0 + 1e-3 * (1.0 + r.unit() as f32)) + 1e-4
    } else {
        // stay inside the same unit interval: a key made by truncation or rounding
        // to an integer cannot tell the two apart
        let fl = f.floor();
        let frac = f - fl;
        fl + if frac < 0.45 { frac + 0.5 } else { frac * 0.5 }
    };
    g.to_bits()
}

/// A "perturbed twin" of the subject: the same program and state with every float
/// (or every integer) nudged. Run before and among the copies it leaves behind
/// whatever a cache keyed too coarsely, a memo or a static would remember.
fn twin_task(subject: &TaskSpec, seed: u64, kind: u8) -> TaskSpec {
    let mut r = Rng::new(derive(seed, "twin"));
    let mut t = subject.clone();
    let floats = kind;
    t.prog = t.prog.iter().map(|x| perturb_item(x, &mut r, floats)).collect();
    if kind < 2 {
        t.state.floats = t.state.floats.iter().map(|b| perturb_f(*b, &mut r, kind)).collect();
        t.state.floatvecs = t.state.floatvecs.iter().map(|v| v.iter().map(|b| perturb_f(*b, &mut r, kind)).collect()).collect();
    } else {
        for x in t.state.ints.iter_mut() {
            if let IntSpec::V(v) = x {
                *x = IntSpec::V(v.wrapping_add(1));
            }
        }
        t.state.intvecs = t.state.intvecs.iter().map(|v| v.iter().map(|i| i.wrapping_add(1)).collect()).collect();
    }
    t.state.code = t.state.code.iter().map(|x| perturb_item(x, &mut r, floats)).collect();
    t.state.exec = t.state.exec.iter().map(|x| perturb_item(x, &mut r, floats)).collect();
    t.salt = r.next() | 1;
    t
}

pub fn generate(seed: u64, instrs: &[String]) -> IsoSc {
    let mut r = Rng::new(derive(seed, "iso"));
    let subject = subject_task(seed, instrs);
    let nn = r.below(5) as usize;
    let mut noise: Vec<TaskSpec> = (0..nn).map(|k| noise_task(derive(seed, "noise-task") ^ k as u64, instrs)).collect();
    if r.chance(2, 3) {
        noise.push(twin_task(&subject, seed, r.below(2) as u8));
    }
    if r.chance(1, 3) {
        noise.push(twin_task(&subject, seed ^ 1, 2));
    }
    IsoSc {
        seed,
        program_text: render_program(&subject.prog),
        subject,
        copies: 1 + r.below(5) as usize,
        noise,
        warmup: *r.pick(&[0u32, 5, 40, 2000, 2000]),
        sched_seed: derive(seed, "sched"),
        share_iset: r.chance(1, 2),
        run_with_intrusions: r.chance(1, 3),
        env_seed: derive(seed, "env"),
    }
}

struct Task {
    st: PushState,
    salt: u64,
    done: bool,
    steps: u64,
    subject: bool,
    iset_slot: usize,
    limit: u64,
}

/// Every task gets the shipped registry behind the C01 operand envelope (size
/// operands > 4096 are skipped for the solo run and for every copy alike).
fn plain_set() -> InstructionSet {
    simenv::wrapped_set().0
}

fn crowd_envelope() -> Envelope {
    let mut e = Envelope::standard();
    e.e_events = u64::MAX;
    // one step may clone its operands several times over: keep far below the worker's allocation ceiling
    e.e_bytes = 24 << 20;
    e
}

fn viol(class: &str, site: &str, detail: String) -> Violation {
    Violation {
        property: "C14".into(),
        class: format!("oracle:{}", class),
        site: site.into(),
        detail,
        at_event: 0,
    }
}

/// Solo reference: fresh instruction set, salt 0, stepped to completion or the
/// step limit. Returns (outcome, statecode).
fn solo(t: &TaskSpec) -> Result<(String, String), PanicInfo> {
    let mut iset = plain_set();
    let mut st = t.state.build(&t.cfg);
    load_program(&mut st, &iset, &t.prog, false);
    seam::set_map_salt(0);
    let cache = iset.cache();
    let limit = t.cfg.eval_push_limit.max(0) as u64 + 1;
    caught(|| {
        PushInterpreter::copy_to_code_stack(&mut st);
        let mut steps = 0u64;
        let mut outcome = "limit";
        while steps < limit {
            if PushInterpreter::step(&mut st, &mut iset, &cache) {
                outcome = "done";
                break;
            }
            steps += 1;
        }
        (format!("{}@{}", outcome, steps), statecode::statecode(&st))
    })
}

struct Intruders {
    tasks: Vec<Task>,
    isets: Vec<InstructionSet>,
    caches: Vec<pushr::push::instructions::InstructionCache>,
    sched: Rng,
    sched_hash: u64,
    switches: u64,
    /// every id a GRAPH.NODE*ADD of any task of this simulated process has received
    ids_seen: std::collections::BTreeSet<i32>,
    ids_twice: Vec<i32>,
}

impl Intruders {
    /// lets the scheduler run up to `n` steps of other tasks
    fn intrude(&mut self, n: u64) {
        for _ in 0..n {
            let live: Vec<usize> = (0..self.tasks.len()).filter(|k| !self.tasks[*k].done).collect();
            if live.is_empty() {
                return;
            }
            let k = live[self.sched.below(live.len() as u64) as usize];
            self.sched_hash = self.sched_hash.wrapping_mul(31).wrapping_add(k as u64 + 1);
            self.switches += 1;
            let t = &mut self.tasks[k];
            seam::set_map_salt(t.salt);
            let iset = &mut self.isets[t.iset_slot];
            let cache = &self.caches[t.iset_slot];
            let adds_node = matches!(t.st.exec_stack.get(0), Some(pushr::push::item::Item::InstructionMeta { name }) if name == "GRAPH.NODE*ADD")
                && t.st.graph_stack.size() > 0
                && t.st.int_stack.size() > 0;
            let nodes_before = t.st.graph_stack.get(0).map(|g| g.node_size()).unwrap_or(0);
            let r = caught(|| PushInterpreter::step(&mut t.st, iset, cache));
            match r {
                Ok(true) => t.done = true,
                Ok(false) => {
                    // (the node count tells whether the instruction really ran: a wrapper may have skipped it)
                    if adds_node && t.st.graph_stack.get(0).map(|g| g.node_size()).unwrap_or(0) == nodes_before + 1 {
                        if let Some(id) = t.st.int_stack.get(0) {
                            if !self.ids_seen.insert(*id) {
                                self.ids_twice.push(*id);
                            }
                        }
                    }
                    t.steps += 1;
                    if t.steps >= t.limit {
                        t.done = true;
                    }
                }
                Err(_) => t.done = true, // a crashing noise task is caught and forgotten
            }
        }
    }
}

struct RunHooks {
    intr: Option<Intruders>,
    my_salt: u64,
}

impl Hooks for RunHooks {
    fn pre(&mut self, _ev: u64, _name: &str, _st: &mut PushState) -> bool {
        if let Some(intr) = self.intr.as_mut() {
            let n = intr.sched.below(4);
            // the environment slot belongs to this thread: the intruders draw their
            // entropy from the same simulated stream, which the subject never reads
            intr.intrude(n);
            seam::set_map_salt(self.my_salt);
        }
        true
    }
    fn as_any(&mut self) -> &mut dyn std::any::Any {
        self
    }
}

pub struct Executed {
    pub violations: Vec<Violation>,
    pub stats: RunStats,
}

pub fn execute(sc: &IsoSc, wrapped: &mut InstructionSet, names: &[String]) -> Executed {
    let mut stats = RunStats::default();
    let mut vs = vec![];
    let env = EnvScript::quiet(sc.env_seed);
    // 1. solo
    simenv::begin(&env, crowd_envelope(), names, None);
    let base = solo(&sc.subject);
    let solo_core = simenv::end();
    if solo_core.left_envelope {
        stats.outcome = "subject-left-envelope".into();
        return Executed { violations: vs, stats };
    }
    let (outcome0, code0) = match base {
        Ok(x) => x,
        Err(_) => {
            stats.outcome = "subject-panics".into(); // C01's matter
            return Executed { violations: vs, stats };
        }
    };
    // 2. the crowd
    let mut isets: Vec<InstructionSet> = vec![];
    let mut tasks: Vec<Task> = vec![];
    let shared_slot = {
        isets.push(plain_set());
        0
    };
    let mut r = Rng::new(derive(sc.seed, "salts"));
    for c in 0..sc.copies {
        let slot = if sc.share_iset {
            shared_slot
        } else {
            isets.push(plain_set());
            isets.len() - 1
        };
        let mut st = sc.subject.state.build(&sc.subject.cfg);
        load_program(&mut st, &isets[slot], &sc.subject.prog, false);
        PushInterpreter::copy_to_code_stack(&mut st);
        tasks.push(Task {
            st,
            salt: if c == 0 { 0 } else { r.next() | 1 },
            done: false,
            steps: 0,
            subject: true,
            iset_slot: slot,
            limit: sc.subject.cfg.eval_push_limit.max(0) as u64 + 1,
        });
    }
    for n in &sc.noise {
        isets.push(plain_set());
        let slot = isets.len() - 1;
        let mut st = n.state.build(&n.cfg);
        load_program(&mut st, &isets[slot], &n.prog, false);
        tasks.push(Task {
            st,
            salt: n.salt,
            done: false,
            steps: 0,
            subject: false,
            iset_slot: slot,
            limit: 400,
        });
    }
    let caches = isets.iter().map(|i| i.cache()).collect();
    let mut intr = Intruders {
        tasks,
        caches,
        isets,
        sched: Rng::new(sc.sched_seed),
        sched_hash: 1,
        switches: 0,
        ids_seen: Default::default(),
        ids_twice: vec![],
    };
    let mut env2 = env.clone();
    env2.draw_budget = 50_000_000;
    let e = crowd_envelope();
    let mut left = false;
    if sc.run_with_intrusions {
        // one more copy under the real run(), the crowd intruding at its boundaries
        let hooks = RunHooks { intr: Some(intr), my_salt: r.next() | 1 };
        let my_salt = hooks.my_salt;
        simenv::begin(&env2, e, names, Some(Box::new(hooks)));
        seam::set_map_salt(my_salt);
        let mut st = sc.subject.state.build(&sc.subject.cfg);
        load_program(&mut st, wrapped, &sc.subject.prog, false);
        let res = caught(|| format!("{:?}", PushInterpreter::run(&mut st, wrapped)));
        // the simulated process goes on below: its node counter continues where it stands
        let counter = seam::set_counter_override(None);
        seam::set_counter_override(counter);
        let mut core = simenv::end();
        let mut h = core.hooks.take().unwrap();
        let h = h.as_any().downcast_mut::<RunHooks>().unwrap();
        intr = h.intr.take().unwrap();
        if let (Ok(o), false) = (&res, core.left_envelope) {
            // run() = copy + steps until done or limit: same end state as the solo loop
            let code = statecode::statecode(&st);
            let exp_outcome = if outcome0.starts_with("done") { "NoErrors" } else { "StepLimitExceeded" };
            if o != "GrowthCapExceeded" && o != "TimeLimitExceeded" {
                if o != exp_outcome || code != code0 {
                    vs.push(viol("run-among-intruders", "run() with co-runners at its instruction boundaries", format!("outcome {} (solo: {}), final state {} the solo run's", o, outcome0, if code == code0 { "equals" } else { "differs from" })));
                }
                stats.probes.insert("run_with_intrusions_judged".into(), 1);
            }
        }
        left |= core.left_envelope;
        // finish the crowd below
        simenv::begin(&env2, crowd_envelope(), names, None);
        if counter.is_some() {
            seam::set_counter_override(counter);
        }
    } else {
        simenv::begin(&env2, crowd_envelope(), names, None);
    }
    // warm-up: only noise moves
    {
        let saved: Vec<bool> = intr.tasks.iter().map(|t| t.done).collect();
        for t in intr.tasks.iter_mut() {
            if t.subject {
                t.done = true;
            }
        }
        intr.intrude(sc.warmup as u64);
        for (t, d) in intr.tasks.iter_mut().zip(saved) {
            if t.subject {
                t.done = d;
            }
        }
    }
    // everyone, until all subject copies are finished (bounded)
    let mut guard = 0u64;
    while intr.tasks.iter().any(|t| t.subject && !t.done) && guard < 20_000 {
        intr.intrude(16);
        guard += 16;
    }
    // history after: noise keeps running; the verdict must not depend on it
    intr.intrude(8);
    let core = simenv::end();
    seam::set_map_salt(0);
    left |= core.left_envelope;
    for (k, t) in intr.tasks.iter().enumerate() {
        if !t.subject || left {
            continue;
        }
        let outcome = format!("{}@{}", if t.steps >= t.limit { "limit" } else { "done" }, t.steps);
        let code = statecode::statecode(&t.st);
        if outcome != outcome0 || code != code0 {
            let what = if code != code0 { first_diff(&code0, &code) } else { String::new() };
            vs.push(viol(
                "copy-differs",
                "subject copy among co-runners",
                format!("copy {} (salt {:#x}, {} instruction set) ended {} with a final state that {} the solo run's ({}); {}", k, t.salt, if sc.share_iset { "shared" } else { "own" }, outcome, if code == code0 { "equals" } else { "differs from" }, outcome0, what),
            ));
            break;
        }
    }
    if !intr.ids_twice.is_empty() {
        vs.push(viol(
            "ids",
            "GRAPH.NODE*ADD: a node id handed out twice in one process",
            format!("ids {:?} were returned by more than one GRAPH.NODE*ADD among the tasks of this run ({} ids handed out)", &intr.ids_twice[..intr.ids_twice.len().min(8)], intr.ids_seen.len()),
        ));
    }
    stats.probes.insert("node_ids_handed_out".into(), intr.ids_seen.len() as u64);
    stats.steps = intr.tasks.iter().map(|t| t.steps).sum();
    stats.events = intr.switches;
    stats.draws = core.draws;
    stats.schedule_hash = intr.sched_hash;
    stats.digest = crate::rng::fnv1a(code0.as_bytes());
    stats.nontrivial = intr.tasks.iter().any(|t| t.subject && t.steps > 1);
    stats.outcome = if outcome0.starts_with("done") { "subject-done".into() } else { "subject-limit".into() };
    stats.log_hash = stats.digest ^ intr.sched_hash;
    stats.faults.insert("preempt_between_steps".into(), intr.switches);
    if sc.copies > 1 || !sc.noise.is_empty() {
        stats.faults.insert("order_permute".into(), 1);
    }
    if sc.share_iset {
        stats.probes.insert("shared_instruction_set".into(), 1);
    }
    Executed { violations: vs, stats }
}

fn first_diff(a: &str, b: &str) -> String {
    for (la, lb) in a.lines().zip(b.lines()) {
        if la != lb {
            return format!("first difference: solo `{}` vs copy `{}`", la.chars().take(120).collect::<String>(), lb.chars().take(120).collect::<String>());
        }
    }
    "states differ in length".into()
}

// ---------------------------------------------------------------- (c) profiles

/// One RAND-free, graph-free program with boundary-heavy operands, run under
/// run(); the (outcome, digest) pair is written to the batch trace and the
/// driver diffs the traces of the dev and release builds.
pub fn profile_run(seed: u64, wrapped: &mut InstructionSet, names: &[String], twins_first: bool) -> (RunStats, String) {
    let t = subject_task(seed, names);
    let env = EnvScript::quiet(derive(seed, "env"));
    let mut e = Envelope::standard();
    e.e_events = 3000;
    if twins_first {
        // history: the perturbed twins of the subject run to completion first
        for kind in [0u8, 1, 2] {
            let tw = twin_task(&t, seed, kind);
            simenv::begin(&env, e, names, None);
            let mut st = tw.state.build(&tw.cfg);
            load_program(&mut st, wrapped, &tw.prog, false);
            let _ = caught(|| format!("{:?}", PushInterpreter::run(&mut st, wrapped)));
            simenv::end();
        }
    }
    simenv::begin(&env, e, names, None);
    let mut st = t.state.build(&t.cfg);
    if seed % 2 == 0 {
        // through the real parser, whatever it makes of the text (no tree comparison here: the
        // parser is part of what must not depend on profile or history)
        let mut text = render_program(&t.prog);
        if seed % 16 == 0 {
            // deep nesting around it
            let d = 100 + (seed / 16 % 900) as usize;
            text = format!("{}{}{}", "( ".repeat(d), text, " )".repeat(d));
        }
        if twins_first {
            // history: other interpreters on this thread, with other vocabularies (an unloaded set; the
            // registry plus user instructions named like names of the text), have parsed the same text
            let mut scratch = PushState::new();
            let unloaded = InstructionSet::new();
            let _ = caught(|| pushr::push::parser::PushParser::parse_program(&mut scratch, &unloaded, &text));
            let mut scratch = PushState::new();
            let mut custom = InstructionSet::new();
            custom.load();
            for n in NAME_POOL.iter().take(12) {
                let _ = custom.add(n.to_string(), pushr::push::instructions::Instruction::new(|_, _| {}));
            }
            let _ = caught(|| pushr::push::parser::PushParser::parse_program(&mut scratch, &custom, &text));
        }
        let _ = caught(|| pushr::push::parser::PushParser::parse_program(&mut st, wrapped, &text));
    } else {
        load_program(&mut st, wrapped, &t.prog, false);
    }
    let res = caught(|| format!("{:?}", PushInterpreter::run(&mut st, wrapped)));
    let core = simenv::end();
    let mut stats = RunStats {
        events: core.events,
        nontrivial: core.events > 0,
        ..Default::default()
    };
    let line = match res {
        Ok(o) => {
            stats.outcome = o.clone();
            stats.digest = statecode::digest(&st);
            format!("{} {:016x}", o, stats.digest)
        }
        Err(p) => {
            stats.outcome = "panic".into();
            let instr = core.cur_instr.map(|i| core.names[i].clone()).unwrap_or_else(|| "<step>".into());
            format!("panic {} {}", instr, normalise_msg(&p.msg))
        }
    };
    stats.log_hash = crate::rng::fnv1a(line.as_bytes());
    (stats, format!("{} | {}", line, render_program(&t.prog).chars().take(160).collect::<String>()))
}

/// CLI clause: a terminating program in parser-safe text plus the lines the
/// command-line front end must print last.
pub fn cli_case(seed: u64, names: &[String], bin_path: &str) -> Option<(String, [String; 3])> {
    let mut r = Rng::new(derive(seed, "cli"));
    let mut ctx = GenCtx::new(names);
    ctx.exclude = excluded(names);
    ctx.exclude.push("CODE.PRINT".into());
    // the shipped binary runs without the harness envelope: no operand-sized work
    for n in ["BOOLVECTOR.ONES", "BOOLVECTOR.ZEROS", "INTVECTOR.ONES", "INTVECTOR.ZEROS", "FLOATVECTOR.ONES", "FLOATVECTOR.ZEROS", "FLOATVECTOR.SINE",
              "LIST.NEIGHBOR*IDS", "LIST.NEIGHBOR*BVALS", "LIST.NEIGHBOR*IVALS", "LIST.NEIGHBOR*FVALS"] {
        ctx.exclude.push(n.to_string());
    }
    let b = 3 + r.below(40) as usize;
    let prog = if r.chance(1, 8) {
        // a counted loop of well over a thousand steps that ends on its own: the front end has no
        // step budget, so it runs to the same end as the library's step loop
        let n = 260 + r.below(500) as i32;
        let body = match r.below(4) {
            0 => vec![ISpec::Int(1), ISpec::I("INTEGER.+".into())],
            1 => vec![ISpec::I("INTEGER.POP".into()), ISpec::Int(2), ISpec::I("INTEGER.POP".into())],
            2 => vec![ISpec::I("INTEGER.DUP".into()), ISpec::I("INTEGER.*".into()), ISpec::I("INTEGER.POP".into())],
            _ => vec![ISpec::B(true), ISpec::I("BOOLEAN.NOT".into()), ISpec::I("BOOLEAN.POP".into())],
        };
        let lead = ctx.literal(&mut r);
        let i = |n: &str| ISpec::I(n.to_string());
        match r.below(3) {
            0 => vec![ISpec::L(vec![lead, ISpec::Int(0), ISpec::Int(n), i("INDEX.DEFINE"), i("EXEC.LOOP"), ISpec::L(body)])],
            1 => vec![ISpec::L(vec![lead, ISpec::Int(0), ISpec::Int(n), i("INDEX.DEFINE"), i("EXEC.LOOP"), ISpec::L(body), i("INDEX.CURRENT")])],
            _ => vec![ISpec::L(vec![lead, ISpec::Int(0), ISpec::Int(n), i("INDEX.DEFINE"), i("CODE.QUOTE"), ISpec::L(body), i("CODE.LOOP")])],
        }
    } else if r.chance(1, 3) {
        // a top-level sequence without the outer parentheses: the argument may start
        // with a negative number, a float, a vector literal, a name or an instruction
        let mut v = vec![match r.below(6) {
            0 => ISpec::Int(-(1 + r.below(50) as i32)),
            1 => ISpec::F((-(r.unit() as f32) - 0.5).to_bits()),
            2 => ISpec::IV(vec![1, 2]),
            3 => ISpec::N(r.pick(NAME_POOL).to_string()),
            4 => ISpec::Int(r.below(50) as i32),
            _ => ctx.instr(&mut r),
        }];
        for _ in 0..(1 + r.below(8)) {
            v.push(if r.chance(1, 4) {
                let bb = 2 + r.below(6) as usize;
                ctx.tree(&mut r, bb, 2)
            } else if r.chance(1, 2) {
                ctx.instr(&mut r)
            } else {
                ctx.literal(&mut r)
            });
        }
        v
    } else {
        vec![ctx.tree(&mut r, b, 3)]
    };
    // tokens that merely contain a parenthesis are names to the parser, for the front end as for the library
    let mut prog = prog;
    if r.chance(1, 5) {
        let odd = ["(2", "f(x)", "a)", "((", ")(", "x(", "(INTEGER.+", "1)"];
        let tok = ISpec::N(r.pick(&odd).to_string());
        match prog.first_mut() {
            Some(ISpec::L(items)) if !items.is_empty() => {
                let at = r.below(items.len() as u64 + 1) as usize;
                items.insert(at, tok);
            }
            _ => prog.push(tok),
        }
    }
    let text = render_program(&prog);
    // the front end binds the name BIN to its own path: the library run below does the same
    if text.len() > 4000 {
        return None;
    }
    // the library side runs behind the envelope; a program that leaves it is not handed to the real
    // binary (which has no envelope and would really allocate)
    let (mut iset, wnames) = simenv::wrapped_set();
    let mut e = Envelope::standard();
    e.e_events = u64::MAX;
    e.e_bytes = 2 << 20;
    simenv::begin(&EnvScript::quiet(seed), e, &wnames, None);
    pushr::push::verif_seam::set_counter_override(None);
    let mut st = PushState::new();
    let ok = caught(|| {
        pushr::push::parser::PushParser::parse_program(&mut st, &iset, &text);
        // the library's own copy onto CODE (what run() does), not the front end's twin of it
        PushInterpreter::copy_to_code_stack(&mut st);
        st.name_bindings.insert("BIN".to_string(), pushr::push::item::Item::id(bin_path.to_string()));
        let cache = iset.cache();
        let mut steps = 0;
        loop {
            if PushInterpreter::step(&mut st, &mut iset, &cache) {
                return true;
            }
            steps += 1;
            if steps > 8000 {
                return false;
            }
        }
    });
    let core = simenv::end();
    if core.left_envelope || core.env_skips > 0 {
        return None;
    }
    match ok {
        Ok(true) => Some((
            text,
            [
                format!("> EXEC  : {}", st.exec_stack.to_string()),
                format!("> CODE  : {}", st.code_stack.to_string()),
                format!("> INT   : {}", st.int_stack.to_string()),
            ],
        )),
        _ => None,
    }
}
