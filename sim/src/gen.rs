//! Workload generators: boundary pools, states, configurations and programs.
//! Instruction names always come from the real registry (`InstructionSet::cache`),
//! nothing is hard-coded except the named program families.
use crate::rng::Rng;
use crate::spec::*;

pub const INT_POOL: &[i32] = &[
    i32::MIN,
    i32::MIN + 1,
    -1_000_000,
    -4097,
    -129,
    -3,
    -2,
    -1,
    0,
    1,
    2,
    3,
    4,
    5,
    7,
    8,
    9,
    10,
    11,
    12,
    13,
    16,
    27,
    36,
    38,
    64,
    100,
    127,
    128,
    4095,
    4096,
    4097,
    1_000_000,
    i32::MAX - 1,
    i32::MAX,
];

pub fn float_pool() -> Vec<u32> {
    let v: Vec<f32> = vec![
        0.0,
        -0.0,
        1.0,
        -1.0,
        0.5,
        0.25,
        0.01,
        0.1,
        0.49,
        0.51,
        0.75,
        0.99,
        1.5,
        2.0,
        -2.5,
        3.1415927,
        6.2831855,
        10.0,
        100.0,
        1e9,
        -1e9,
        1e30,
        1e-30,
        f32::MIN,
        f32::MAX,
        f32::EPSILON,
        f32::MIN_POSITIVE,
        f32::INFINITY,
        f32::NEG_INFINITY,
        f32::NAN,
        2147483648.0,
        -2147483904.0,
        4294967296.0,
    ];
    v.into_iter().map(|f| f.to_bits()).collect()
}

pub const NAME_POOL: &[&str] = &[
    "x", "y", "z", "foo", "bar", "ARG", "BIN", "n1", "echo", "true", "ls", "nosuchcmd", "a-b-1",
    "k", "v0", "tmp", "é", "日本", "naïve", "🦀x", "ß",
    // spellings that differ only in case are different names
    "FOO", "Foo", "fOO", "X", "Bar", "arg", "É",
];

pub fn gen_int(r: &mut Rng) -> i32 {
    match r.below(10) {
        0..=4 => *r.pick(INT_POOL),
        5..=7 => r.range(-12, 12) as i32,
        8 => r.range(-1000, 1000) as i32,
        _ => r.next() as i32,
    }
}

pub fn gen_small_int(r: &mut Rng) -> i32 {
    match r.below(10) {
        0..=6 => r.range(-3, 12) as i32,
        7..=8 => *r.pick(INT_POOL),
        _ => r.range(-100, 100) as i32,
    }
}

pub fn gen_float(r: &mut Rng, pool: &[u32]) -> u32 {
    match r.below(10) {
        0..=5 => *r.pick(pool),
        6..=7 => ((r.unit() * 2.0 - 1.0) as f32).to_bits(),
        8 => ((r.unit() * 200.0 - 100.0) as f32).to_bits(),
        _ => r.next() as u32,
    }
}

pub fn gen_len(r: &mut Rng) -> usize {
    match r.below(12) {
        0..=1 => 0,
        2..=3 => 1,
        4 => 2,
        5..=8 => r.range(2, 8) as usize,
        9..=10 => r.range(8, 17) as usize,
        _ => r.range(17, 40) as usize,
    }
}

pub fn gen_boolvec(r: &mut Rng) -> Vec<bool> {
    let n = gen_len(r);
    (0..n).map(|_| r.chance(1, 2)).collect()
}

pub fn gen_intvec(r: &mut Rng) -> Vec<i32> {
    let n = gen_len(r);
    let mode = r.below(4);
    (0..n)
        .map(|_| match mode {
            0 => r.range(1, 12) as i32, // stack ids for LIST.ADD / LIST.SET
            1 => gen_int(r),
            2 => r.range(-3, 20) as i32,
            _ => r.range(0, 14) as i32,
        })
        .collect()
}

pub fn gen_floatvec(r: &mut Rng, pool: &[u32]) -> Vec<u32> {
    let n = gen_len(r);
    (0..n).map(|_| gen_float(r, pool)).collect()
}

pub fn gen_name(r: &mut Rng, bound: &[String]) -> String {
    if !bound.is_empty() && r.chance(1, 2) {
        r.pick(bound).clone()
    } else {
        r.pick(NAME_POOL).to_string()
    }
}

pub struct GenCtx<'a> {
    pub instrs: &'a [String],
    pub fpool: Vec<u32>,
    pub bound: Vec<String>,
    /// instructions the generator must not emit (e.g. RAND family for C02)
    pub exclude: Vec<String>,
    /// instructions emitted more often in this run (swarm focus)
    pub focus: Vec<String>,
    /// also emit INDEX / GRAPH literals inside code (API-only items)
    pub api_literals: bool,
}

impl<'a> GenCtx<'a> {
    pub fn new(instrs: &'a [String]) -> GenCtx<'a> {
        GenCtx {
            instrs,
            fpool: float_pool(),
            bound: vec![],
            exclude: vec![],
            focus: vec![],
            api_literals: false,
        }
    }

    pub fn allowed(&self, name: &str) -> bool {
        !self.exclude.iter().any(|e| e == name)
    }

    pub fn instr(&self, r: &mut Rng) -> ISpec {
        if r.chance(1, 80) {
            // an instruction item whose name the executing set does not know (programmatic
            // code, or code parsed with a larger set): step() must treat it as a no-op
            return ISpec::I((*r.pick(&["UNKNOWN.OP", "INTEGER.FOO", "NOOP2", "CODE.FROBNICATE"])).to_string());
        }
        if !self.focus.is_empty() && r.chance(2, 5) {
            return ISpec::I(r.pick(&self.focus).clone());
        }
        for _ in 0..20 {
            let n = r.pick(self.instrs);
            if self.allowed(n) {
                return ISpec::I(n.clone());
            }
        }
        ISpec::I("NOOP".to_string())
    }

    pub fn literal(&self, r: &mut Rng) -> ISpec {
        if self.api_literals && r.chance(1, 40) {
            // literals only the API can put into code (the parser has no syntax for them)
            return if r.chance(1, 2) {
                let d = r.below(6) as u32;
                ISpec::Idx(r.below(d as u64 + 3) as u32, d)
            } else {
                ISpec::G(gen_graph(r))
            };
        }
        if r.chance(1, 30) {
            // the empty list, alone or nested
            return if r.chance(1, 3) { ISpec::L(vec![ISpec::L(vec![])]) } else { ISpec::L(vec![]) };
        }
        match r.below(16) {
            0..=6 => ISpec::Int(gen_int(r)),
            7..=9 => ISpec::F(gen_float(r, &self.fpool)),
            10 => ISpec::B(r.chance(1, 2)),
            11..=12 => ISpec::N(gen_name(r, &self.bound)),
            13 => ISpec::BV(gen_boolvec(r)),
            14 => ISpec::IV(gen_intvec(r)),
            _ => ISpec::FV(gen_floatvec(r, &self.fpool)),
        }
    }

    /// A random code tree of about `budget` points.
    pub fn tree(&self, r: &mut Rng, budget: usize, depth_left: usize) -> ISpec {
        if budget <= 1 || depth_left == 0 {
            return if r.chance(3, 5) {
                self.instr(r)
            } else {
                self.literal(r)
            };
        }
        let mut left = budget - 1;
        let mut v = vec![];
        while left > 0 {
            if r.chance(1, 7) && left > 2 {
                let sub = 1 + r.below(left.min(12) as u64) as usize;
                v.push(self.tree(r, sub, depth_left - 1));
                left -= sub.min(left);
            } else {
                v.push(if r.chance(11, 20) {
                    self.instr(r)
                } else {
                    self.literal(r)
                });
                left -= 1;
            }
        }
        ISpec::L(v)
    }

    pub fn small_code(&self, r: &mut Rng) -> ISpec {
        let b = match r.below(6) {
            0 => 1,
            1..=3 => r.range(2, 6) as usize,
            _ => r.range(6, 14) as usize,
        };
        self.tree(r, b, 3)
    }
}

pub fn gen_config(r: &mut Rng) -> ConfigSpec {
    let mut c = ConfigSpec::default_cfg();
    // random bounds always min < max (the property's quantifier)
    match r.below(4) {
        0 => {}
        1 => {
            let a = r.range(-50, 50) as i32;
            c.min_random_integer = a;
            c.max_random_integer = a + 1 + r.below(40) as i32;
        }
        2 => {
            c.min_random_integer = *r.pick(&[i32::MIN, i32::MIN + 1, -1, 0]);
            c.max_random_integer = *r.pick(&[1, 2, 100, i32::MAX - 1, i32::MAX]);
        }
        _ => {
            c.min_random_integer = 0;
            c.max_random_integer = 1 + r.below(30) as i32;
        }
    }
    match r.below(4) {
        0 => {}
        1 => {
            let a = (r.unit() * 20.0 - 10.0) as f32;
            c.min_random_float = a.to_bits();
            c.max_random_float = (a + 0.001 + (r.unit() * 10.0) as f32).to_bits();
        }
        2 => {
            // min < max holds for all of these (NaN never compares less): the quantifier's whole range
            c.min_random_float = (*r.pick(&[-1e30f32, -1.0, 0.0, -f32::MAX / 4.0, f32::MIN, f32::NEG_INFINITY, -f32::MIN_POSITIVE])).to_bits();
            c.max_random_float = (*r.pick(&[1e-3f32, 1.0, 1e30, f32::MAX / 4.0, f32::MAX, f32::INFINITY, f32::MIN_POSITIVE])).to_bits();
        }
        _ => {
            c.min_random_float = 0f32.to_bits();
            c.max_random_float = 1f32.to_bits();
        }
    }
    let epl = match r.below(5) {
        0 => r.range(-1, 10) as i32,
        1 => r.range(10, 100) as i32,
        2 => 1000,
        _ => r.range(100, 1500) as i32,
    };
    c.eval_push_limit = epl;
    c.growth_cap = match r.below(16) {
        0..=3 => r.below(5) as usize,
        4..=7 => r.range(5, 50) as usize,
        8 => *r.pick(&[usize::MAX, usize::MAX - 1, i32::MAX as usize, 1 << 40]),
        _ => 500,
    };
    c.eval_time_limit = *r.pick(&[0u64, 1, 50, 5000, 5000, 5000, u64::MAX, u64::MAX / 1000]);
    if r.chance(1, 16) {
        // (a huge step limit is a legitimate way to run for ever: not generated)
        c.eval_push_limit = *r.pick(&[i32::MIN, i32::MIN + 1, -2]);
    }
    // a probability is a float like any other: out of range, infinite and NaN values are configurations too
    c.new_erc_name_probability = (*r.pick(&[0.0f32, 0.001, 0.001, 0.5, 1.0, 1.0001, 5.0, -0.001, f32::NAN, f32::INFINITY])).to_bits();
    c.max_points_in_random_expressions = *r.pick(&[0, 1, 2, 3, 25, 25, 25, -25, 100, 200]);
    c.max_points_in_program = *r.pick(&[100, 100, 10, 1000]);
    c
}

pub fn gen_msg(r: &mut Rng, serial: i32) -> MsgSpec {
    let hl = r.below(3) as usize;
    let mut header = vec![serial];
    for _ in 0..hl {
        header.push(gen_small_int(r));
    }
    let bl = match r.below(6) {
        0 => 0,
        1 => 1,
        _ => r.range(2, 9) as usize,
    };
    MsgSpec {
        header,
        body: (0..bl).map(|_| r.chance(1, 2)).collect(),
    }
}

/// An edge weight: mostly in [-1, 1], one in four an extreme float (NaN, the infinities, -0,
/// the largest and smallest magnitudes): weights are compared, sorted, summed and printed.
pub fn gen_weight(r: &mut Rng) -> u32 {
    if r.chance(1, 4) {
        r.pick(&[f32::NAN, f32::INFINITY, f32::NEG_INFINITY, -0.0, f32::MAX, f32::MIN, f32::MIN_POSITIVE, 1.0e-45, 0.0])
            .to_bits()
    } else {
        ((r.unit() * 2.0 - 1.0) as f32).to_bits()
    }
}

pub fn gen_graph(r: &mut Rng) -> GraphSpec {
    let n = r.below(6) as usize;
    let nodes: Vec<i32> = (0..n).map(|_| r.range(-2, 5) as i32).collect();
    let mut edges = vec![];
    if n > 0 {
        for _ in 0..r.below(8) {
            edges.push((
                r.below(n as u64) as usize,
                r.below(n as u64) as usize,
                gen_weight(r),
            ));
        }
    }
    GraphSpec { nodes, edges }
}

fn depth(r: &mut Rng) -> usize {
    match r.below(10) {
        0..=1 => 0,
        2 => 1,
        3 => 2,
        4..=7 => r.range(3, 6) as usize,
        _ => r.range(6, 12) as usize,
    }
}

pub fn gen_state(r: &mut Rng, ctx: &mut GenCtx) -> StateSpec {
    let mut s = StateSpec::default();
    // bindings first, so that names can refer to them
    let nb = match r.below(10) {
        0..=3 => 0,
        4..=5 => 1,
        6..=8 => r.range(2, 6) as usize,
        // many bindings: map iteration order has something to permute
        _ => r.range(8, 24) as usize,
    };
    for j in 0..nb {
        let k = if nb > 6 && j >= 4 { format!("{}{}", r.pick(NAME_POOL), j) } else { r.pick(NAME_POOL).to_string() };
        let v = match r.below(5) {
            0..=2 => ctx.literal(r),
            3 => ctx.instr(r),
            _ => ctx.small_code(r),
        };
        if !s.bindings.iter().any(|(kk, _)| kk == &k) {
            s.bindings.push((k.clone(), v));
            ctx.bound.push(k);
        }
    }
    for _ in 0..r.below(3) {
        s.graphs.push(gen_graph(r));
    }
    for _ in 0..depth(r) {
        s.bools.push(r.chance(1, 2));
    }
    for _ in 0..depth(r) + depth(r) {
        let use_ref = !s.graphs.is_empty() && r.chance(1, 6);
        if use_ref {
            let g = r.below(s.graphs.len() as u64) as usize;
            let nn = s.graphs[g].nodes.len();
            s.ints.push(IntSpec::NodeId {
                graph: g,
                node: if nn > 0 { r.below(nn as u64) as usize } else { 0 },
                plus: *r.pick(&[0, 0, 0, 1, -1, 1000]),
            });
        } else {
            s.ints.push(IntSpec::V(gen_int(r)));
        }
    }
    for _ in 0..depth(r) {
        s.floats.push(gen_float(r, &ctx.fpool));
    }
    for _ in 0..depth(r) {
        s.names.push(gen_name(r, &ctx.bound));
    }
    for _ in 0..depth(r) {
        s.code.push(ctx.small_code(r));
    }
    for _ in 0..r.below(3) {
        s.exec.push(ctx.small_code(r));
    }
    for _ in 0..depth(r) {
        s.boolvecs.push(gen_boolvec(r));
    }
    for _ in 0..depth(r) {
        s.intvecs.push(gen_intvec(r));
    }
    for _ in 0..depth(r) {
        s.floatvecs.push(gen_floatvec(r, &ctx.fpool));
    }
    for _ in 0..r.below(3) {
        let d = r.below(6) as u32;
        // current > destination is a legal state for a host to hand over (pub fields)
        s.indices.push((r.below(d as u64 + 3) as u32, d));
    }
    let ni = match r.below(6) {
        0..=1 => 0,
        2..=3 => r.range(1, 3) as usize,
        4 => r.range(3, 9) as usize,
        _ => r.range(9, 12) as usize,
    };
    for i in 0..ni {
        s.input.push(gen_msg(r, 1000 + i as i32));
    }
    for i in 0..r.below(4) {
        s.output.push(gen_msg(r, 2000 + i as i32));
    }
    s.quote_name = r.chance(1, 10);
    s.send_name = r.chance(1, 10);
    s
}

/// RAND family: instructions whose outcome depends on entropy.
pub fn rand_family(instrs: &[String]) -> Vec<String> {
    instrs
        .iter()
        .filter(|n| n.contains("RAND"))
        .cloned()
        .collect()
}

pub fn i(n: &str) -> ISpec {
    ISpec::I(n.to_string())
}

/// Named program families of DESIGN §2.5(c).
pub fn family_program(r: &mut Rng, ctx: &GenCtx) -> Vec<ISpec> {
    let body = |r: &mut Rng| {
        let b = 2 + r.below(8) as usize;
        ctx.tree(r, b, 2)
    };
    match r.below(12) {
        11 => {
            // LIST records: items move between stacks by stack id (1..12, invalid ids, repeats, the
            // EXEC and CODE ids themselves), then are addressed by clamped positions
            let mut v = vec![];
            let ids = |r: &mut Rng| -> ISpec {
                let n = r.below(7) as usize;
                ISpec::IV((0..n).map(|_| if r.chance(1, 8) { gen_small_int(r) } else { r.range(1, 12) as i32 }).collect())
            };
            for _ in 0..(3 + r.below(14)) {
                match r.below(9) {
                    0..=1 => {
                        v.push(ctx.literal(r));
                        v.push(ctx.literal(r));
                    }
                    2..=3 => {
                        v.push(ids(r));
                        v.push(i("LIST.ADD"));
                    }
                    4 => {
                        v.push(ids(r));
                        v.push(ISpec::Int(gen_small_int(r)));
                        v.push(i("LIST.SET"));
                    }
                    5 => {
                        v.push(ISpec::Int(gen_small_int(r)));
                        v.push(i(*r.pick(&["LIST.GET", "LIST.REMOVE"])));
                    }
                    6 => {
                        v.push(ISpec::Int(gen_small_int(r)));
                        v.push(ISpec::Int(gen_small_int(r)));
                        v.push(i(*r.pick(&["LIST.BVAL", "LIST.IVAL", "LIST.FVAL"])));
                    }
                    7 => {
                        v.push(ISpec::F(((r.unit() * 3.0) as f32).to_bits()));
                        for _ in 0..4 {
                            v.push(ISpec::Int(gen_small_int(r)));
                        }
                        v.push(i(*r.pick(&["LIST.NEIGHBOR*IDS", "LIST.NEIGHBOR*BVALS", "LIST.NEIGHBOR*IVALS", "LIST.NEIGHBOR*FVALS"])));
                    }
                    _ => v.push(ctx.instr(r)),
                }
            }
            vec![ISpec::L(v)]
        }
        10 => {
            // a structured graph history: in a simulated run node ids start at 1 (H4b), so small
            // integer literals are valid, stale or not-yet-valid ids
            let mut v = vec![i("GRAPH.ADD")];
            let k = 1 + r.below(6) as i32;
            for n in 0..k {
                v.push(ISpec::Int(n % 3));
                v.push(i("GRAPH.NODE*ADD"));
                if r.chance(1, 2) {
                    v.push(i("INTEGER.POP"));
                }
            }
            let gi: Vec<String> = ctx.instrs.iter().filter(|n| n.starts_with("GRAPH.")).cloned().collect();
            for _ in 0..(4 + r.below(16)) {
                match r.below(8) {
                    0..=2 => {
                        v.push(ISpec::Int(r.range(0, k as i64 + 2) as i32));
                        v.push(ISpec::Int(r.range(0, k as i64 + 2) as i32));
                        v.push(ISpec::F(gen_weight(r)));
                        v.push(i(*r.pick(&["GRAPH.EDGE*ADD", "GRAPH.EDGE*ADD", "GRAPH.EDGE*SETWEIGHT", "GRAPH.EDGE*GETWEIGHT"])));
                    }
                    3 => v.push(i("GRAPH.DUP")),
                    4 => {
                        let n = r.below(5) as usize;
                        v.push(ISpec::IV((0..n).map(|_| r.range(0, k as i64 + 2) as i32).collect()));
                        v.push(ISpec::BV((0..r.below(5)).map(|_| r.chance(1, 2)).collect()));
                        v.push(ISpec::Int(gen_small_int(r)));
                        v.push(ISpec::Int(gen_small_int(r)));
                        v.push(i("GRAPH.NODE*STATESWITCH"));
                    }
                    5 => {
                        v.push(ISpec::IV((0..r.below(3)).map(|_| r.range(-1, 3) as i32).collect()));
                        v.push(ISpec::Int(r.range(-1, k as i64 + 2) as i32));
                        v.push(i(*r.pick(&["GRAPH.NODE*NEIGHBORS", "GRAPH.NODE*PREDECESSORS", "GRAPH.NODE*SUCCESSORS", "GRAPH.NODES", "GRAPH.NODES*HISTORY"])));
                    }
                    6 => {
                        v.push(ISpec::Int(r.range(-1, k as i64 + 2) as i32));
                        v.push(ISpec::Int(r.range(-1, 4) as i32));
                        v.push(i(*r.pick(&["GRAPH.NODE*HISTORY", "GRAPH.EDGE*HISTORY", "GRAPH.NODE*GETSTATE", "GRAPH.NODE*SETSTATE", "GRAPH.PRINT*DIFF", "GRAPH.PRINT"])));
                    }
                    _ => {
                        if !gi.is_empty() {
                            v.push(ISpec::I(r.pick(&gi).clone()));
                        }
                    }
                }
            }
            vec![ISpec::L(v)]
        }
        9 => {
            // the GRAPH stack is a bounded stack-kind buffer (capacity 100): fill it
            vec![ISpec::L(vec![
                i("GRAPH.ADD"),
                ISpec::Int(1),
                i("GRAPH.NODE*ADD"),
                i("EXEC.Y"),
                ISpec::L(vec![i("GRAPH.DUP"), ISpec::Int(gen_small_int(r)), i("GRAPH.NODE*ADD"), ctx.instr(r)]),
            ])]
        }
        0 => vec![ISpec::L(vec![i("EXEC.Y"), body(r)])],
        1 => vec![ISpec::L(vec![
            i("CODE.QUOTE"),
            ctx.small_code(r),
            i("EXEC.Y"),
            ISpec::L(vec![
                i("CODE.DUP"),
                i(*r.pick(&["CODE.LIST", "CODE.APPEND", "CODE.CONS"])),
            ]),
        ])],
        2 => vec![ISpec::L(vec![
            ISpec::Int(gen_small_int(r)),
            i("INDEX.DEFINE"),
            i(*r.pick(&["EXEC.LOOP", "CODE.LOOP"])),
            body(r),
        ])],
        3 => {
            // EXEC.CMD with 0..3 arguments
            let n = r.below(4) as i32;
            let mut v = vec![];
            for _ in 0..=n {
                v.push(ISpec::N(r.pick(NAME_POOL).to_string()));
            }
            v.push(ISpec::Int(if r.chance(1, 5) { gen_int(r) } else { n }));
            v.push(i("EXEC.CMD"));
            v.push(body(r));
            vec![ISpec::L(v)]
        }
        4 => {
            // RAND heavy
            let rf = rand_family(ctx.instrs);
            let mut v = vec![];
            for _ in 0..(3 + r.below(12)) {
                if r.chance(1, 2) && !rf.is_empty() {
                    v.push(ctx.literal(r));
                    v.push(ISpec::Int(gen_small_int(r)));
                    v.push(ISpec::I(r.pick(&rf).clone()));
                } else {
                    v.push(ctx.instr(r));
                }
            }
            vec![ISpec::L(v)]
        }
        5 => {
            // INPUT / OUTPUT heavy
            let io: Vec<&String> = ctx
                .instrs
                .iter()
                .filter(|n| n.starts_with("INPUT.") || n.starts_with("OUTPUT."))
                .collect();
            let mut v = vec![];
            for _ in 0..(3 + r.below(15)) {
                match r.below(4) {
                    0 => v.push(ISpec::Int(gen_small_int(r))),
                    1 => {
                        v.push(ISpec::BV(gen_boolvec(r)));
                        v.push(ISpec::IV(gen_intvec(r)));
                    }
                    _ => v.push(ISpec::I((*r.pick(&io)).clone())),
                }
            }
            vec![ISpec::L(v)]
        }
        6 => vec![ISpec::L(vec![
            ISpec::IV(gen_intvec(r)),
            i("INTVECTOR.LOOP"),
            body(r),
        ])],
        7 => {
            // name growth
            // (any name of the pool, multi-byte ones included: byte positions matter to string code)
            vec![ISpec::L(vec![
                ISpec::N(r.pick(NAME_POOL).to_string()),
                ISpec::N(r.pick(NAME_POOL).to_string()),
                i("EXEC.Y"),
                ISpec::L(vec![i("NAME.DUP"), i("NAME.CAT"), i(*r.pick(&["NOOP", "NAME.SWAP", "CODE.FROMNAME", "NAME.DUP", "CODE.PRINT"]))]),
            ])]
        }
        _ => {
            // deep nesting (clone / drop / size / Display recurse once per level)
            let d = match r.below(4) {
                0 => 1 + r.below(8) as usize,
                1 => 8 + r.below(60) as usize,
                2 => 60 + r.below(400) as usize,
                _ => 400 + r.below(2000) as usize,
            };
            let mut t = body(r);
            for _ in 0..d {
                t = ISpec::L(vec![ctx.instr(r), t, ctx.literal(r)]);
            }
            vec![t]
        }
    }
}

/// The grammar generator of DESIGN §2.5(b): a token soup over the registry
/// with boundary literals, nested 0..6 deep.
pub fn grammar_program(r: &mut Rng, ctx: &GenCtx) -> Vec<ISpec> {
    let budget = match r.below(6) {
        0 => r.range(1, 5) as usize,
        1..=3 => r.range(5, 40) as usize,
        _ => r.range(40, 200) as usize,
    };
    let d = 1 + r.below(6) as usize;
    vec![ctx.tree(r, budget, d)]
}
