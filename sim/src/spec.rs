//! Plain-data descriptions of programs, states and configurations. A `PushState`
//! is not `Clone`; everything the simulator runs is *built* from these specs, so
//! that a reference copy, a replay and a minimised variant are all the same
//! function of the same data.
use pushr::push::buffer::PushBuffer;
use pushr::push::configuration::PushConfiguration;
use pushr::push::graph::Graph;
use pushr::push::index::Index;
use pushr::push::instructions::InstructionSet;
use pushr::push::io::PushMessage;
use pushr::push::item::{Item, PushType};
use pushr::push::parser::PushParser;
use pushr::push::state::PushState;
use pushr::push::vector::{BoolVector, FloatVector, IntVector};
use serde::{Deserialize, Serialize};

/// A code item. Lists are in textual order: element 0 is printed first and
/// executes first. Floats travel as bit patterns.
#[derive(Serialize, Deserialize, Clone, Debug, PartialEq)]
#[serde(into = "FlatISpec", from = "FlatISpec")]
pub enum ISpec {
    L(Vec<ISpec>),
    I(String),
    N(String),
    Int(i32),
    F(u32),
    B(bool),
    BV(Vec<bool>),
    IV(Vec<i32>),
    FV(Vec<u32>),
    /// an INDEX literal (current, destination): not parser-producible, legal via the API
    Idx(u32, u32),
    /// a GRAPH literal built by recipe
    G(GraphSpec),
}

/// Wire form of an ISpec: a flat token list (`Open` ... `Close` for lists), so
/// that deeply nested programs do not nest the JSON (serde_json and the Python
/// driver both limit recursion depth).
#[derive(Serialize, Deserialize, Clone, Debug, PartialEq)]
pub enum Tok {
    Open,
    Close,
    I(String),
    N(String),
    Int(i32),
    F(u32),
    B(bool),
    BV(Vec<bool>),
    IV(Vec<i32>),
    FV(Vec<u32>),
    Idx(u32, u32),
    G(GraphSpec),
}

#[derive(Serialize, Deserialize, Clone, Debug, PartialEq)]
pub struct FlatISpec(pub Vec<Tok>);

fn flatten(x: &ISpec, out: &mut Vec<Tok>) {
    match x {
        ISpec::L(v) => {
            out.push(Tok::Open);
            for c in v {
                flatten(c, out);
            }
            out.push(Tok::Close);
        }
        ISpec::I(n) => out.push(Tok::I(n.clone())),
        ISpec::N(n) => out.push(Tok::N(n.clone())),
        ISpec::Int(i) => out.push(Tok::Int(*i)),
        ISpec::F(b) => out.push(Tok::F(*b)),
        ISpec::B(b) => out.push(Tok::B(*b)),
        ISpec::BV(v) => out.push(Tok::BV(v.clone())),
        ISpec::IV(v) => out.push(Tok::IV(v.clone())),
        ISpec::FV(v) => out.push(Tok::FV(v.clone())),
        ISpec::Idx(c, d) => out.push(Tok::Idx(*c, *d)),
        ISpec::G(g) => out.push(Tok::G(g.clone())),
    }
}

impl From<ISpec> for FlatISpec {
    fn from(x: ISpec) -> FlatISpec {
        let mut out = vec![];
        flatten(&x, &mut out);
        FlatISpec(out)
    }
}

impl From<FlatISpec> for ISpec {
    fn from(f: FlatISpec) -> ISpec {
        // iterative: a stack of open lists
        let mut stack: Vec<Vec<ISpec>> = vec![vec![]];
        for t in f.0 {
            match t {
                Tok::Open => stack.push(vec![]),
                Tok::Close => {
                    let done = stack.pop().unwrap_or_default();
                    if stack.is_empty() {
                        stack.push(vec![]);
                    }
                    stack.last_mut().unwrap().push(ISpec::L(done));
                }
                Tok::I(n) => stack.last_mut().unwrap().push(ISpec::I(n)),
                Tok::N(n) => stack.last_mut().unwrap().push(ISpec::N(n)),
                Tok::Int(i) => stack.last_mut().unwrap().push(ISpec::Int(i)),
                Tok::F(b) => stack.last_mut().unwrap().push(ISpec::F(b)),
                Tok::B(b) => stack.last_mut().unwrap().push(ISpec::B(b)),
                Tok::BV(v) => stack.last_mut().unwrap().push(ISpec::BV(v)),
                Tok::IV(v) => stack.last_mut().unwrap().push(ISpec::IV(v)),
                Tok::FV(v) => stack.last_mut().unwrap().push(ISpec::FV(v)),
                Tok::Idx(c, d) => stack.last_mut().unwrap().push(ISpec::Idx(c, d)),
                Tok::G(g) => stack.last_mut().unwrap().push(ISpec::G(g)),
            }
        }
        let mut top = stack.into_iter().next().unwrap_or_default();
        if top.len() == 1 {
            top.pop().unwrap()
        } else {
            ISpec::L(top)
        }
    }
}

impl ISpec {
    pub fn to_item(&self) -> Item {
        match self {
            ISpec::L(v) => Item::list(v.iter().rev().map(|x| x.to_item()).collect()),
            ISpec::I(n) => Item::instruction(n.clone()),
            ISpec::N(n) => Item::name(n.clone()),
            ISpec::Int(i) => Item::int(*i),
            ISpec::F(b) => Item::float(f32::from_bits(*b)),
            ISpec::B(b) => Item::bool(*b),
            ISpec::BV(v) => Item::boolvec(BoolVector::new(v.clone())),
            ISpec::IV(v) => Item::intvec(IntVector::new(v.clone())),
            ISpec::FV(v) => Item::floatvec(FloatVector::new(
                v.iter().map(|b| f32::from_bits(*b)).collect(),
            )),
            ISpec::Idx(c, d) => Item::index(Index {
                current: *c as usize,
                destination: *d as usize,
            }),
            ISpec::G(g) => Item::Literal {
                push_type: PushType::Graph { val: g.build().0 },
            },
        }
    }

    /// Structural copy of a real item. Index and graph literals have no spec
    /// form; they are rendered as names (they cannot occur in generated code).
    pub fn from_item(item: &Item) -> ISpec {
        match item {
            Item::List { items } => {
                let mut v = Vec::with_capacity(items.size());
                for i in 0..items.size() {
                    v.push(ISpec::from_item(items.get(i).unwrap()));
                }
                ISpec::L(v)
            }
            Item::InstructionMeta { name } => ISpec::I(name.clone()),
            Item::Identifier { name } => ISpec::N(name.clone()),
            Item::Literal { push_type } => match push_type {
                PushType::Bool { val } => ISpec::B(*val),
                PushType::Int { val } => ISpec::Int(*val),
                PushType::Float { val } => ISpec::F(val.to_bits()),
                PushType::BoolVector { val } => ISpec::BV(val.values.clone()),
                PushType::IntVector { val } => ISpec::IV(val.values.clone()),
                PushType::FloatVector { val } => {
                    ISpec::FV(val.values.iter().map(|f| f.to_bits()).collect())
                }
                PushType::Index { val } => ISpec::Idx(val.current as u32, val.destination as u32),
                PushType::Graph { val } => ISpec::G(GraphSpec::from_graph(val)),
            },
        }
    }

    pub fn points(&self) -> usize {
        match self {
            ISpec::L(v) => 1 + v.iter().map(|x| x.points()).sum::<usize>(),
            _ => 1,
        }
    }

    pub fn depth(&self) -> usize {
        match self {
            ISpec::L(v) => 1 + v.iter().map(|x| x.depth()).max().unwrap_or(0),
            _ => 0,
        }
    }

    pub fn render(&self, out: &mut String) {
        match self {
            ISpec::L(v) => {
                out.push('(');
                for x in v {
                    out.push(' ');
                    x.render(out);
                }
                out.push_str(" )");
            }
            ISpec::I(n) | ISpec::N(n) => out.push_str(n),
            ISpec::Int(i) => out.push_str(&i.to_string()),
            ISpec::F(b) => out.push_str(&fmt_f32(f32::from_bits(*b))),
            ISpec::B(b) => out.push_str(if *b { "TRUE" } else { "FALSE" }),
            ISpec::BV(v) => {
                out.push_str("BOOL[");
                out.push_str(
                    &v.iter()
                        .map(|b| if *b { "1" } else { "0" })
                        .collect::<Vec<_>>()
                        .join(","),
                );
                out.push(']');
            }
            ISpec::IV(v) => {
                out.push_str("INT[");
                out.push_str(&v.iter().map(|i| i.to_string()).collect::<Vec<_>>().join(","));
                out.push(']');
            }
            ISpec::FV(v) => {
                out.push_str("FLOAT[");
                out.push_str(
                    &v.iter()
                        .map(|b| fmt_f32(f32::from_bits(*b)))
                        .collect::<Vec<_>>()
                        .join(","),
                );
                out.push(']');
            }
            // no text form: such items only travel as trees
            ISpec::Idx(c, d) => out.push_str(&format!("<index:{}/{}>", c, d)),
            ISpec::G(g) => out.push_str(&format!("<graph:{}n{}e>", g.nodes.len(), g.edges.len())),
        }
    }

    pub fn text(&self) -> String {
        let mut s = String::new();
        self.render(&mut s);
        s
    }

    /// Visits all instruction names.
    pub fn instrs<'a>(&'a self, out: &mut Vec<&'a str>) {
        match self {
            ISpec::L(v) => v.iter().for_each(|x| x.instrs(out)),
            ISpec::I(n) => out.push(n),
            _ => (),
        }
    }
}

/// Float text the parser reads back as the same f32 (always with a '.', an
/// exponent or a non-finite keyword, so it is never taken for an integer).
pub fn fmt_f32(f: f32) -> String {
    format!("{:?}", f)
}

pub fn render_program(prog: &[ISpec]) -> String {
    prog.iter().map(|x| x.text()).collect::<Vec<_>>().join(" ")
}

#[derive(Serialize, Deserialize, Clone, Debug, PartialEq)]
pub struct ConfigSpec {
    pub max_random_float: u32,
    pub min_random_float: u32,
    pub max_random_integer: i32,
    pub min_random_integer: i32,
    pub eval_push_limit: i32,
    pub eval_time_limit: u64,
    pub growth_cap: usize,
    pub new_erc_name_probability: u32,
    pub max_points_in_random_expressions: i32,
    pub max_points_in_program: i32,
}

impl ConfigSpec {
    pub fn default_cfg() -> ConfigSpec {
        ConfigSpec::from_cfg(&PushConfiguration::new())
    }

    pub fn from_cfg(c: &PushConfiguration) -> ConfigSpec {
        ConfigSpec {
            max_random_float: c.max_random_float.to_bits(),
            min_random_float: c.min_random_float.to_bits(),
            max_random_integer: c.max_random_integer,
            min_random_integer: c.min_random_integer,
            eval_push_limit: c.eval_push_limit,
            eval_time_limit: c.eval_time_limit,
            growth_cap: c.growth_cap,
            new_erc_name_probability: c.new_erc_name_probability.to_bits(),
            max_points_in_random_expressions: c.max_points_in_random_expressions,
            max_points_in_program: c.max_points_in_program,
        }
    }

    pub fn apply(&self, c: &mut PushConfiguration) {
        c.max_random_float = f32::from_bits(self.max_random_float);
        c.min_random_float = f32::from_bits(self.min_random_float);
        c.max_random_integer = self.max_random_integer;
        c.min_random_integer = self.min_random_integer;
        c.eval_push_limit = self.eval_push_limit;
        c.eval_time_limit = self.eval_time_limit;
        c.growth_cap = self.growth_cap;
        c.new_erc_name_probability = f32::from_bits(self.new_erc_name_probability);
        c.max_points_in_random_expressions = self.max_points_in_random_expressions;
        c.max_points_in_program = self.max_points_in_program;
    }
}

#[derive(Serialize, Deserialize, Clone, Debug, PartialEq, Default)]
pub struct MsgSpec {
    pub header: Vec<i32>,
    pub body: Vec<bool>,
}

impl MsgSpec {
    pub fn to_msg(&self) -> PushMessage {
        PushMessage::new(
            IntVector::new(self.header.clone()),
            BoolVector::new(self.body.clone()),
        )
    }
    pub fn from_msg(m: &PushMessage) -> MsgSpec {
        MsgSpec {
            header: m.header.values.clone(),
            body: m.body.values.clone(),
        }
    }
}

/// A graph built by recipe: node ids are whatever the process-wide counter
/// yields; edges refer to nodes by their position in `nodes`.
#[derive(Serialize, Deserialize, Clone, Debug, PartialEq, Default)]
pub struct GraphSpec {
    pub nodes: Vec<i32>,
    pub edges: Vec<(usize, usize, u32)>,
}

impl GraphSpec {
    /// Builds the graph; returns it with the ids its nodes received.
    pub fn build(&self) -> (Graph, Vec<usize>) {
        let mut graph = Graph::new();
        let mut gids = vec![];
        for s in &self.nodes {
            gids.push(graph.add_node(*s));
        }
        for (a, b, w) in &self.edges {
            if *a < gids.len() && *b < gids.len() {
                graph.add_edge(gids[*a], gids[*b], f32::from_bits(*w));
            }
        }
        (graph, gids)
    }

    pub fn from_graph(g: &Graph) -> GraphSpec {
        let mut ids: Vec<usize> = g.nodes.iter().map(|(k, _)| *k).collect();
        ids.sort();
        let nodes = ids.iter().map(|id| g.nodes.get(id).unwrap().get_state()).collect();
        let mut edges = vec![];
        for (dst, inc) in g.edges.iter() {
            for e in inc.iter() {
                if let (Ok(a), Ok(b)) = (ids.binary_search(&e.get_origin_id()), ids.binary_search(dst)) {
                    edges.push((a, b, e.get_weight().to_bits()));
                }
            }
        }
        edges.sort();
        GraphSpec { nodes, edges }
    }
}

/// An integer of the initial INTEGER stack: a plain value or a reference to the
/// id of a node of a recipe-built graph (plus an offset, to aim at stale ids).
#[derive(Serialize, Deserialize, Clone, Debug, PartialEq)]
pub enum IntSpec {
    V(i32),
    NodeId { graph: usize, node: usize, plus: i32 },
}

#[derive(Serialize, Deserialize, Clone, Debug, PartialEq, Default)]
pub struct StateSpec {
    // every stack bottom first, top last
    pub bools: Vec<bool>,
    pub ints: Vec<IntSpec>,
    pub floats: Vec<u32>,
    pub names: Vec<String>,
    pub code: Vec<ISpec>,
    pub exec: Vec<ISpec>,
    pub boolvecs: Vec<Vec<bool>>,
    pub intvecs: Vec<Vec<i32>>,
    pub floatvecs: Vec<Vec<u32>>,
    pub indices: Vec<(u32, u32)>,
    // queues oldest first
    pub input: Vec<MsgSpec>,
    pub output: Vec<MsgSpec>,
    pub bindings: Vec<(String, ISpec)>,
    pub graphs: Vec<GraphSpec>,
    pub quote_name: bool,
    pub send_name: bool,
}

impl StateSpec {
    pub fn build(&self, cfg: &ConfigSpec) -> PushState {
        let mut st = PushState::new();
        cfg.apply(&mut st.configuration);
        let mut ids: Vec<Vec<usize>> = vec![];
        for g in &self.graphs {
            let (graph, gids) = g.build();
            ids.push(gids);
            st.graph_stack.push(graph);
        }
        for b in &self.bools {
            st.bool_stack.push(*b);
        }
        for i in &self.ints {
            match i {
                IntSpec::V(v) => st.int_stack.push(*v),
                IntSpec::NodeId { graph, node, plus } => {
                    let id = ids
                        .get(*graph)
                        .and_then(|g| g.get(*node))
                        .map(|x| *x as i32)
                        .unwrap_or(0);
                    st.int_stack.push(id.wrapping_add(*plus));
                }
            }
        }
        for f in &self.floats {
            st.float_stack.push(f32::from_bits(*f));
        }
        for n in &self.names {
            st.name_stack.push(n.clone());
        }
        for c in &self.code {
            st.code_stack.push(c.to_item());
        }
        for e in &self.exec {
            st.exec_stack.push(e.to_item());
        }
        for v in &self.boolvecs {
            st.bool_vector_stack.push(BoolVector::new(v.clone()));
        }
        for v in &self.intvecs {
            st.int_vector_stack.push(IntVector::new(v.clone()));
        }
        for v in &self.floatvecs {
            st.float_vector_stack.push(FloatVector::new(
                v.iter().map(|b| f32::from_bits(*b)).collect(),
            ));
        }
        for (c, d) in &self.indices {
            st.index_stack.push(Index {
                current: *c as usize,
                destination: *d as usize,
            });
        }
        fill(&mut st.input_stack, &self.input);
        fill(&mut st.output_stack, &self.output);
        for (k, v) in &self.bindings {
            st.name_bindings.insert(k.clone(), v.to_item());
        }
        st.quote_name = self.quote_name;
        st.send_name = self.send_name;
        st
    }

    pub fn total_items(&self) -> usize {
        self.bools.len()
            + self.ints.len()
            + self.floats.len()
            + self.names.len()
            + self.code.len()
            + self.exec.len()
            + self.boolvecs.len()
            + self.intvecs.len()
            + self.floatvecs.len()
            + self.indices.len()
            + self.input.len()
            + self.output.len()
            + self.bindings.len()
            + self.graphs.len()
    }
}

fn fill(q: &mut PushBuffer<PushMessage>, msgs: &[MsgSpec]) {
    for m in msgs {
        q.push(m.to_msg());
    }
}

/// Pushes the program onto EXEC so that `prog[0]` is on top, either as item
/// trees or through the real parser. Returns false if the parser route was
/// requested but the text does not describe the same tree (then trees are used).
pub fn load_program(
    st: &mut PushState,
    iset: &InstructionSet,
    prog: &[ISpec],
    via_parser: bool,
) -> bool {
    if via_parser {
        let text = render_program(prog);
        let mut probe = PushState::new();
        PushParser::parse_program(&mut probe, iset, &text);
        let want: Vec<ISpec> = prog.to_vec();
        let mut got = vec![];
        for i in 0..probe.exec_stack.size() {
            got.push(ISpec::from_item(probe.exec_stack.get(i).unwrap()));
        }
        if got == want {
            // the parser front-pushes; with other items already on EXEC it would
            // put the program beneath them, so parse into the probe and move over
            let n = probe.exec_stack.size();
            if let Some(items) = probe.exec_stack.pop_vec(n) {
                st.exec_stack.push_vec(items);
            }
            return true;
        }
    }
    for it in prog.iter().rev() {
        st.exec_stack.push(it.to_item());
    }
    false
}
