//! The simulated environment: clock, entropy with a fault layer, process
//! spawner, map-order salt, event log and the instruction wrappers (seam S-A)
//! that give the simulator an event boundary inside the real `run()` loop.
use crate::alloc;
use crate::rng::{derive, Rng};
use pushr::push::instructions::{Instruction, InstructionSet};
use pushr::push::state::PushState;
use pushr::push::verif_seam as seam;
use serde::{Deserialize, Serialize};
use std::cell::RefCell;
use std::collections::BTreeMap;
use std::io;

/// Marker carried by panics the simulator raises itself (never pushr's fault
/// by themselves; the engines decide what they mean).
pub const BUDGET_PANIC: &str = "SIM-ENTROPY-BUDGET-EXCEEDED";

#[derive(Serialize, Deserialize, Clone, Debug, PartialEq)]
pub struct EnvScript {
    /// seed of the entropy word stream handed to pushr
    pub entropy_seed: u64,
    /// per-mille of words replaced by an extreme value
    pub p_extreme: u32,
    /// per-mille of words followed by 1..3 repeats of themselves
    pub p_repeat: u32,
    /// liveness bound: more draws than this in one run is a hang
    pub draw_budget: u64,
    /// seed of per-event instruction costs
    pub cost_seed: u64,
    /// every instruction event costs 1..20 ms instead of 0..50 us
    pub slow: bool,
    /// (instruction event index, jump in us)
    pub stalls: Vec<(u64, u64)>,
    /// seed deciding spawn outcomes
    pub spawn_seed: u64,
    /// per-mille of spawns that fail (kind drawn uniformly)
    pub p_spawn_fail: u32,
    /// the stub child exposes a stdout handle
    pub spawn_stdout: bool,
    /// iteration-order salt for every map inside pushr (0 = ascending keys)
    pub map_salt: u64,
}

impl EnvScript {
    pub fn quiet(seed: u64) -> EnvScript {
        EnvScript {
            entropy_seed: derive(seed, "entropy"),
            p_extreme: 0,
            p_repeat: 0,
            draw_budget: 1_000_000,
            cost_seed: derive(seed, "cost"),
            slow: false,
            stalls: vec![],
            spawn_seed: derive(seed, "spawn"),
            p_spawn_fail: 0,
            spawn_stdout: false,
            map_salt: 0,
        }
    }
}

#[derive(Clone, Copy, Debug)]
pub struct Envelope {
    pub enabled: bool,
    /// largest size operand passed on to allocation-sized instructions
    pub e_size: i64,
    /// largest size operand passed on to LIST.NEIGHBOR* (cost is quadratic)
    pub e_neigh: i64,
    /// live bytes a run may add before it is stopped as "left envelope"
    pub e_bytes: u64,
    /// instruction events per run
    pub e_events: u64,
}

impl Envelope {
    pub fn off() -> Envelope {
        Envelope {
            enabled: false,
            e_size: i64::MAX,
            e_neigh: i64::MAX,
            e_bytes: u64::MAX,
            e_events: u64::MAX,
        }
    }
    pub fn standard() -> Envelope {
        Envelope {
            enabled: true,
            e_size: 4096,
            e_neigh: 128,
            e_bytes: 1 << 20,
            e_events: 2000,
        }
    }
}

/// Engine-specific behaviour at instruction boundaries.
pub trait Hooks {
    /// Before the instruction `name` (event number `ev`); return false to skip
    /// it. The simulator core is not borrowed while a hook runs: use
    /// `simenv::with` / `simenv::fault` to reach it, and feel free to step other
    /// interpreters (their shims may draw entropy or read the clock).
    fn pre(&mut self, _ev: u64, _name: &str, _st: &mut PushState) -> bool {
        true
    }
    fn post(&mut self, _ev: u64, _name: &str, _st: &mut PushState) {}
    fn as_any(&mut self) -> &mut dyn std::any::Any;
}

pub struct SimCore {
    pub active: bool,
    pub script: EnvScript,
    pub clock_us: u64,
    pub clock_reads: u64,
    pub slept_us: u64,
    pub sleeps: u64,
    ent: Rng,
    ent_fault: Rng,
    last_word: u64,
    repeat_left: u32,
    pub draws: u64,
    cost: Rng,
    spawn: Rng,
    pub spawn_log: Vec<(String, Vec<String>, String)>,
    pub events: u64,
    pub cur_instr: Option<usize>,
    pub names: Vec<String>,
    pub counts: Vec<u64>,
    /// executions after which the state fingerprint differed (the instruction had its operands)
    pub effective: Vec<u64>,
    pub pre_quick: u64,
    pub faults: BTreeMap<&'static str, u64>,
    pub probes: BTreeMap<&'static str, u64>,
    pub envelope: Envelope,
    pub env_skips: u64,
    pub left_envelope: bool,
    pub base_live: u64,
    pub log_hash: u64,
    pub hooks: Option<Box<dyn Hooks>>,
    /// bytes / calls of the allocator since the previous event (C15 meter)
    pub last_alloc: alloc::Snapshot,
}

impl SimCore {
    fn idle() -> SimCore {
        SimCore {
            active: false,
            script: EnvScript::quiet(0),
            clock_us: 0,
            clock_reads: 0,
            slept_us: 0,
            sleeps: 0,
            ent: Rng::new(0),
            ent_fault: Rng::new(0),
            last_word: 0,
            repeat_left: 0,
            draws: 0,
            cost: Rng::new(0),
            spawn: Rng::new(0),
            spawn_log: vec![],
            events: 0,
            cur_instr: None,
            names: vec![],
            counts: vec![],
            effective: vec![],
            pre_quick: 0,
            faults: BTreeMap::new(),
            probes: BTreeMap::new(),
            envelope: Envelope::off(),
            env_skips: 0,
            left_envelope: false,
            base_live: 0,
            log_hash: 0xcbf2_9ce4_8422_2325,
            hooks: None,
            last_alloc: alloc::Snapshot::default(),
        }
    }

    pub fn fault(&mut self, kind: &'static str) {
        *self.faults.entry(kind).or_insert(0) += 1;
    }

    pub fn probe(&mut self, kind: &'static str) {
        *self.probes.entry(kind).or_insert(0) += 1;
    }

    #[inline]
    pub fn log(&mut self, x: u64) {
        self.log_hash ^= x;
        self.log_hash = self.log_hash.wrapping_mul(0x0000_0100_0000_01B3);
    }

    fn next_word(&mut self) -> u64 {
        self.draws += 1;
        if self.draws > self.script.draw_budget {
            // Unwinds out of pushr; the slot guards are released on the way.
            panic!("{}", BUDGET_PANIC);
        }
        if self.repeat_left > 0 {
            self.repeat_left -= 1;
            self.fault("entropy_repeat");
            return self.last_word;
        }
        let mut w = self.ent.next();
        if self.script.p_extreme + self.script.p_repeat > 0 {
            let r = self.ent_fault.below(1000) as u32;
            if r < self.script.p_extreme {
                const EXT: [u64; 8] = [
                    0,
                    u64::MAX,
                    1 << 31,
                    1 << 63,
                    1 << 32,
                    (1 << 32) - 1,
                    0xffff_ffff_0000_0000,
                    0x7fff_ffff_ffff_ffff,
                ];
                w = EXT[self.ent_fault.below(8) as usize];
                self.fault("entropy_extreme");
            } else if r < self.script.p_extreme + self.script.p_repeat {
                self.repeat_left = 1 + self.ent_fault.below(3) as u32;
            }
        }
        self.last_word = w;
        w
    }
}

thread_local! {
    pub static SIM: RefCell<SimCore> = RefCell::new(SimCore::idle());
}

pub fn with<R>(f: impl FnOnce(&mut SimCore) -> R) -> R {
    SIM.with(|s| f(&mut s.borrow_mut()))
}

struct Handle;

impl seam::Env for Handle {
    fn now_us(&mut self) -> u64 {
        with(|s| {
            s.clock_reads += 1;
            s.clock_us
        })
    }
    fn sleep_us(&mut self, us: u64) {
        with(|s| {
            s.clock_us = s.clock_us.saturating_add(us);
            s.slept_us = s.slept_us.saturating_add(us);
            s.sleeps += 1;
            s.log(0x51ee9 ^ us);
        })
    }
    fn spawn(&mut self, cmd: &str, args: &[String]) -> io::Result<seam::SpawnOutcome> {
        with(|s| {
            let r = s.spawn.below(1000) as u32;
            let res = if r < s.script.p_spawn_fail {
                let k = s.spawn.below(4);
                let (kind, name): (io::ErrorKind, &'static str) = match k {
                    0 => (io::ErrorKind::NotFound, "spawn_enoent"),
                    1 => (io::ErrorKind::PermissionDenied, "spawn_eacces"),
                    2 => (io::ErrorKind::WouldBlock, "spawn_eagain"),
                    _ => (io::ErrorKind::Other, "spawn_other"),
                };
                s.fault(name);
                s.spawn_log
                    .push((cmd.to_string(), args.to_vec(), name.to_string()));
                Err(io::Error::new(kind, "simulated spawn failure"))
            } else {
                s.spawn_log
                    .push((cmd.to_string(), args.to_vec(), "ok".to_string()));
                Ok(seam::SpawnOutcome::Child {
                    stdout: s.script.spawn_stdout,
                })
            };
            s.probe("spawn_reached");
            s.log(0x59a3 ^ r as u64);
            res
        })
    }
    fn entropy_u64(&mut self) -> u64 {
        with(|s| s.next_word())
    }
}

/// Starts a simulated run on this thread.
pub fn begin(script: &EnvScript, envelope: Envelope, names: &[String], hooks: Option<Box<dyn Hooks>>) {
    with(|s| {
        *s = SimCore::idle();
        s.active = true;
        s.script = script.clone();
        s.ent = Rng::new(script.entropy_seed);
        s.ent_fault = Rng::new(derive(script.entropy_seed, "fault"));
        s.cost = Rng::new(script.cost_seed);
        s.spawn = Rng::new(script.spawn_seed);
        s.names = names.to_vec();
        s.counts = vec![0; names.len()];
        s.effective = vec![0; names.len()];
        s.envelope = envelope;
        s.hooks = hooks;
        s.base_live = alloc::live();
        s.last_alloc = alloc::snapshot();
    });
    seam::set_map_salt(script.map_salt);
    // node ids are a function of the run, not of what ran earlier in the process
    seam::set_counter_override(Some(1));
    if script.map_salt != 0 {
        with(|s| s.fault("order_permute"));
    }
    seam::install(Box::new(Handle));
}

/// Ends the run and returns the core with everything it recorded.
pub fn end() -> SimCore {
    seam::uninstall();
    seam::set_map_salt(0);
    seam::set_counter_override(None);
    SIM.with(|s| std::mem::replace(&mut *s.borrow_mut(), SimCore::idle()))
}

/// The size-like operand of instructions whose cost is proportional to it
/// (the C01 envelope; C15 looks at what happens outside).
fn size_operand(name: &str, st: &PushState) -> Option<(i64, bool)> {
    // returns (operand, is_neighbor)
    match name {
        "BOOLVECTOR.ONES" | "BOOLVECTOR.ZEROS" | "INTVECTOR.ONES" | "INTVECTOR.ZEROS"
        | "FLOATVECTOR.ONES" | "FLOATVECTOR.ZEROS" | "BOOLVECTOR.RAND"
        | "INTVECTOR.RAND" | "FLOATVECTOR.RAND" | "FLOATVECTOR.SINE" => {
            st.int_stack.get(0).map(|v| (*v as i64, false))
        }
        "LIST.NEIGHBOR*IDS" => st.int_stack.get(0).map(|v| (*v as i64, true)),
        "LIST.NEIGHBOR*BVALS" | "LIST.NEIGHBOR*IVALS" | "LIST.NEIGHBOR*FVALS" => {
            st.int_stack.get(1).map(|v| (*v as i64, true))
        }
        _ => None,
    }
}

thread_local! {
    static TRACE: RefCell<Option<std::fs::File>> = RefCell::new(None);
}

/// Abort forensics: write the instruction about to run to a file.
pub fn set_trace(path: &str) {
    let f = std::fs::File::create(path).expect("trace file");
    TRACE.with(|t| *t.borrow_mut() = Some(f));
}

/// For engines without instruction wrappers: note what is about to run.
pub fn trace_note(name: &str) {
    trace(name, 0);
}

/// The same with a number (the operand magnitude of the measured step) in the event column.
pub fn trace_note_at(name: &str, n: u64) {
    trace(name, n);
}

fn trace(name: &str, ev: u64) {
    TRACE.with(|t| {
        if let Some(f) = t.borrow_mut().as_mut() {
            use std::io::Write;
            let _ = writeln!(f, "{} {}", ev, name);
        }
    });
}

fn pre(idx: usize, st: &mut PushState) -> bool {
    let (mut hooks, mut go) = with(|s| {
        s.cur_instr = Some(idx);
        if s.counts.len() <= idx {
            // begin() was given no registry: still meter and envelope by name
            s.names = wrapped_names();
            s.counts = vec![0; s.names.len()];
            s.effective = vec![0; s.names.len()];
        }
        s.counts[idx] += 1;
        trace(&s.names[idx], s.events);
        // clock: cost of this event, then scheduled stalls
        let c = if s.script.slow {
            s.fault("clock_slow");
            1000 + s.cost.below(19_001)
        } else {
            s.cost.below(51)
        };
        s.clock_us = s.clock_us.saturating_add(c);
        let ev = s.events;
        let mut jump = 0u64;
        for (at, us) in &s.script.stalls {
            if *at == ev {
                jump = jump.saturating_add(*us);
            }
        }
        if jump > 0 {
            s.clock_us = s.clock_us.saturating_add(jump);
            s.fault("clock_stall");
        }
        s.events += 1;
        let mut go = true;
        if s.envelope.enabled {
            if let Some((v, neigh)) = size_operand(&s.names[idx], st) {
                let lim = if neigh { s.envelope.e_neigh } else { s.envelope.e_size };
                if v > lim {
                    s.env_skips += 1;
                    go = false;
                }
            }
        }
        let h = crate::statecode::shape(st);
        s.pre_quick = crate::statecode::quick(st);
        let (clk, dr) = (s.clock_us, s.draws);
        s.log(idx as u64);
        s.log(clk);
        s.log(dr);
        s.log(h);
        (s.hooks.take(), go)
    });
    if let Some(h) = hooks.as_mut() {
        let (ev, name) = with(|s| (s.events - 1, s.names[idx].clone()));
        let ok = h.pre(ev, &name, st);
        go = go && ok;
    }
    with(|s| s.hooks = hooks);
    go
}

pub fn fault(kind: &'static str) {
    with(|s| s.fault(kind));
}

fn post(idx: usize, st: &mut PushState) {
    let mut hooks = with(|s| s.hooks.take());
    if let Some(h) = hooks.as_mut() {
        let (ev, name) = with(|s| (s.events - 1, s.names[idx].clone()));
        h.post(ev, &name, st);
    }
    let q = crate::statecode::quick(st);
    with(|s| {
        s.hooks = hooks;
        s.cur_instr = None;
        if q != s.pre_quick && idx < s.effective.len() {
            s.effective[idx] += 1;
        }
        if s.envelope.enabled {
            let grown = alloc::live().saturating_sub(s.base_live);
            if grown > s.envelope.e_bytes || s.events >= s.envelope.e_events {
                // stop the run: outside the resource envelope of C01
                s.left_envelope = true;
                st.exec_stack.flush();
            }
        }
    });
}

/// Replaces every registered instruction by a wrapper `pre; original; post`.
/// Returns the instruction names in ascending order; event indices refer to it.
pub fn wrap_all(iset: &mut InstructionSet) -> Vec<String> {
    let mut names = iset.cache().list;
    names.sort();
    for (idx, name) in names.iter().enumerate() {
        let mut orig = iset
            .add(name.clone(), Instruction::new(|_, _| {}))
            .expect("registered instruction");
        iset.add(
            name.clone(),
            Instruction::new(move |st, cache| {
                if pre(idx, st) {
                    (orig.execute)(st, cache);
                }
                post(idx, st);
            }),
        );
    }
    names
}

/// A fresh default instruction set with every instruction wrapped.
pub fn wrapped_set() -> (InstructionSet, Vec<String>) {
    let mut iset = InstructionSet::new();
    iset.load();
    let names = wrap_all(&mut iset);
    (iset, names)
}

thread_local! {
    static NAMES: RefCell<Vec<String>> = RefCell::new(vec![]);
}

fn wrapped_names() -> Vec<String> {
    NAMES.with(|n| {
        if n.borrow().is_empty() {
            let mut iset = InstructionSet::new();
            iset.load();
            let mut v = iset.cache().list;
            v.sort();
            *n.borrow_mut() = v;
        }
        n.borrow().clone()
    })
}
