//! Canonical encoding of a `PushState` ("statecode"): the unit of comparison,
//! digesting and replay. All stacks top first, floats by bit pattern with every
//! NaN collapsed, bindings sorted by key, queues oldest first, graphs with
//! nodes and edges sorted and node ids replaced by their rank (ids are
//! process-wide by design), both flags and the configuration.
use crate::rng::fnv1a;
use pushr::push::graph::Graph;
use pushr::push::item::{Item, PushType};
use pushr::push::state::PushState;
use std::fmt::Write;

fn fbits(f: f32) -> u32 {
    if f.is_nan() {
        0x7fc0_0000
    } else {
        f.to_bits()
    }
}

pub fn enc_item(it: &Item, out: &mut String) {
    match it {
        Item::List { items } => {
            out.push('(');
            for i in 0..items.size() {
                enc_item(items.get(i).unwrap(), out);
                out.push(' ');
            }
            out.push(')');
        }
        Item::InstructionMeta { name } => {
            let _ = write!(out, "!{}", name);
        }
        Item::Identifier { name } => {
            let _ = write!(out, "@{:?}", name);
        }
        Item::Literal { push_type } => match push_type {
            PushType::Bool { val } => out.push_str(if *val { "T" } else { "F" }),
            PushType::Int { val } => {
                let _ = write!(out, "i{}", val);
            }
            PushType::Float { val } => {
                let _ = write!(out, "f{:08x}", fbits(*val));
            }
            PushType::Index { val } => {
                let _ = write!(out, "x{}/{}", val.current, val.destination);
            }
            PushType::BoolVector { val } => {
                out.push_str("bv[");
                for b in &val.values {
                    out.push(if *b { '1' } else { '0' });
                }
                out.push(']');
            }
            PushType::IntVector { val } => {
                out.push_str("iv[");
                for i in &val.values {
                    let _ = write!(out, "{},", i);
                }
                out.push(']');
            }
            PushType::FloatVector { val } => {
                out.push_str("fv[");
                for f in &val.values {
                    let _ = write!(out, "{:08x},", fbits(*f));
                }
                out.push(']');
            }
            PushType::Graph { val } => enc_graph(val, out),
        },
    }
}

pub fn enc_graph(g: &Graph, out: &mut String) {
    let mut ids: Vec<usize> = g.nodes.iter().map(|(k, _)| *k).collect();
    ids.sort();
    let rank = |id: usize| -> i64 {
        match ids.binary_search(&id) {
            Ok(r) => r as i64,
            Err(_) => -1,
        }
    };
    out.push_str("G{n:");
    for id in &ids {
        let n = g.nodes.get(id).unwrap();
        let _ = write!(out, "{}={},", rank(*id), n.get_state());
    }
    out.push_str(" e:");
    let mut edges: Vec<(i64, i64, u32)> = vec![];
    for (dst, inc) in g.edges.iter() {
        for e in inc.iter() {
            edges.push((rank(e.get_origin_id()), rank(*dst), fbits(e.get_weight())));
        }
    }
    edges.sort();
    for (a, b, w) in edges {
        let _ = write!(out, "{}>{}:{:08x},", a, b, w);
    }
    out.push('}');
}

/// Which parts of the state enter the code.
#[derive(Clone, Copy)]
pub struct Opts {
    pub config: bool,
    pub graphs: bool,
}

pub const FULL: Opts = Opts {
    config: true,
    graphs: true,
};

pub fn statecode(st: &PushState) -> String {
    statecode_with(st, FULL)
}

pub fn statecode_with(st: &PushState, o: Opts) -> String {
    let mut s = String::with_capacity(256);
    s.push_str("BOOL:");
    for i in 0..st.bool_stack.size() {
        s.push(if *st.bool_stack.get(i).unwrap() { 'T' } else { 'F' });
    }
    s.push_str("\nINT:");
    for i in 0..st.int_stack.size() {
        let _ = write!(s, "{} ", st.int_stack.get(i).unwrap());
    }
    s.push_str("\nFLOAT:");
    for i in 0..st.float_stack.size() {
        let _ = write!(s, "{:08x} ", fbits(*st.float_stack.get(i).unwrap()));
    }
    s.push_str("\nNAME:");
    for i in 0..st.name_stack.size() {
        let _ = write!(s, "{:?} ", st.name_stack.get(i).unwrap());
    }
    s.push_str("\nCODE:");
    for i in 0..st.code_stack.size() {
        enc_item(st.code_stack.get(i).unwrap(), &mut s);
        s.push(' ');
    }
    s.push_str("\nEXEC:");
    for i in 0..st.exec_stack.size() {
        enc_item(st.exec_stack.get(i).unwrap(), &mut s);
        s.push(' ');
    }
    s.push_str("\nBVEC:");
    for i in 0..st.bool_vector_stack.size() {
        s.push('[');
        for b in &st.bool_vector_stack.get(i).unwrap().values {
            s.push(if *b { '1' } else { '0' });
        }
        s.push(']');
    }
    s.push_str("\nIVEC:");
    for i in 0..st.int_vector_stack.size() {
        s.push('[');
        for v in &st.int_vector_stack.get(i).unwrap().values {
            let _ = write!(s, "{},", v);
        }
        s.push(']');
    }
    s.push_str("\nFVEC:");
    for i in 0..st.float_vector_stack.size() {
        s.push('[');
        for v in &st.float_vector_stack.get(i).unwrap().values {
            let _ = write!(s, "{:08x},", fbits(*v));
        }
        s.push(']');
    }
    s.push_str("\nINDEX:");
    for i in 0..st.index_stack.size() {
        let x = st.index_stack.get(i).unwrap();
        let _ = write!(s, "{}/{} ", x.current, x.destination);
    }
    s.push_str("\nINPUT:");
    for m in st.input_stack.iter() {
        let _ = write!(s, "{:?}&{:?} ", m.header.values, m.body.values);
    }
    s.push_str("\nOUTPUT:");
    for m in st.output_stack.iter() {
        let _ = write!(s, "{:?}&{:?} ", m.header.values, m.body.values);
    }
    if o.graphs {
        s.push_str("\nGRAPH:");
        for g in st.graph_stack.iter() {
            enc_graph(g, &mut s);
        }
    }
    s.push_str("\nBIND:");
    let mut keys: Vec<&String> = st.name_bindings.iter().map(|(k, _)| k).collect();
    keys.sort();
    for k in keys {
        let _ = write!(s, "{:?}=>", k);
        enc_item(st.name_bindings.get(k).unwrap(), &mut s);
        s.push(' ');
    }
    let _ = write!(s, "\nFLAGS:q={} s={}", st.quote_name, st.send_name);
    if o.config {
        let c = &st.configuration;
        let _ = write!(
            s,
            "\nCFG:{:08x} {:08x} {} {} {} {} {} {:08x} {} {}",
            fbits(c.max_random_float),
            fbits(c.min_random_float),
            c.max_random_integer,
            c.min_random_integer,
            c.eval_push_limit,
            c.eval_time_limit,
            c.growth_cap,
            fbits(c.new_erc_name_probability),
            c.max_points_in_random_expressions,
            c.max_points_in_program
        );
    }
    s
}

pub fn digest(st: &PushState) -> u64 {
    fnv1a(statecode(st).as_bytes())
}

/// Cheap per-event fingerprint: the depths of all stacks and queues.
pub fn shape(st: &PushState) -> u64 {
    let v = [
        st.bool_stack.size(),
        st.int_stack.size(),
        st.float_stack.size(),
        st.name_stack.size(),
        st.code_stack.size(),
        st.exec_stack.size(),
        st.bool_vector_stack.size(),
        st.int_vector_stack.size(),
        st.float_vector_stack.size(),
        st.index_stack.size(),
        st.input_stack.size(),
        st.output_stack.size(),
        st.graph_stack.size(),
        st.name_bindings.len(),
    ];
    let mut h: u64 = 0xcbf2_9ce4_8422_2325;
    for x in v {
        h ^= x as u64;
        h = h.wrapping_mul(0x0000_0100_0000_01B3);
    }
    h
}

/// Cheap "did anything change" fingerprint: all depths, both flags and the top
/// item of every value stack (bit patterns / lengths / first elements).
pub fn quick(st: &PushState) -> u64 {
    let mut h = shape(st);
    let mut mix = |x: u64| {
        h ^= x;
        h = h.wrapping_mul(0x0000_0100_0000_01B3);
    };
    mix(st.quote_name as u64 + 2 * st.send_name as u64);
    if let Some(v) = st.int_stack.get(0) {
        mix(*v as u64);
    }
    if let Some(v) = st.float_stack.get(0) {
        mix(v.to_bits() as u64);
    }
    if let Some(v) = st.bool_stack.get(0) {
        mix(*v as u64 + 7);
    }
    if let Some(v) = st.name_stack.get(0) {
        mix(v.len() as u64);
    }
    if let Some(v) = st.bool_vector_stack.get(0) {
        mix(v.values.len() as u64);
        mix(v.values.iter().take(64).fold(0u64, |a, b| (a << 1) | *b as u64));
    }
    if let Some(v) = st.int_vector_stack.get(0) {
        mix(v.values.len() as u64);
        mix(v.values.iter().fold(0u64, |a, b| a.wrapping_mul(31).wrapping_add(*b as u64)));
    }
    if let Some(v) = st.float_vector_stack.get(0) {
        mix(v.values.len() as u64);
        mix(v.values.iter().fold(0u64, |a, b| a.wrapping_mul(31).wrapping_add(b.to_bits() as u64)));
    }
    if let Some(x) = st.index_stack.get(0) {
        mix(x.current as u64 * 131 + x.destination as u64);
    }
    if let Some(g) = st.graph_stack.get(0) {
        mix(g.node_size() as u64 * 17 + g.edge_size() as u64);
        for (_, n) in g.nodes.iter() {
            mix(n.get_state() as u64);
        }
        for (_, es) in g.edges.iter() {
            for e in es.iter() {
                mix(e.get_weight().to_bits() as u64);
            }
        }
    }
    if let Some(it) = st.code_stack.get(0) {
        mix(pushr::push::item::Item::size(it) as u64);
    }
    if let Some(it) = st.exec_stack.get(0) {
        mix(pushr::push::item::Item::size(it) as u64);
    }
    h
}
