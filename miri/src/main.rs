//! C14 (b) on real std threads under Miri's seeded scheduler and data-race
//! detector: concurrent graph construction never hands out a node id twice.
//! shuttle sees only hooked operations and models SeqCst; a counter moved to a
//! `static mut`, or a racy read-modify-write, is flagged here instead.
#![allow(dead_code)]
#[path = "../../sim/src/gen.rs"]
mod gen;
#[path = "../../sim/src/rng.rs"]
mod rng;
#[path = "../../sim/src/spec.rs"]
mod spec;

use pushr::push::graph::Graph;
use pushr::push::instructions::InstructionSet;
use pushr::push::interpreter::PushInterpreter;
use pushr::push::item::Item;
use pushr::push::state::PushState;
use std::collections::BTreeSet;
use std::thread;

/// A generated RAND-free, graph-free subject (program and state from the workload seed given
/// on the command line) plus a fixed tail touching topology, float, name and code instructions.
fn subject_with(seed: u64) -> String {
    let mut iset = InstructionSet::new();
    iset.load();
    let mut names = iset.cache().list;
    names.sort();
    let mut ctx = gen::GenCtx::new(&names);
    ctx.exclude = names
        .iter()
        .filter(|n| n.contains("RAND") || n.starts_with("GRAPH.") || n.as_str() == "EXEC.CMD" || n.ends_with(".ONES") || n.ends_with(".ZEROS") || n.contains("NEIGHBOR") || n.as_str() == "FLOATVECTOR.SINE" || n.as_str() == "EXEC.Y")
        .cloned()
        .collect();
    let mut r = rng::Rng::new(rng::derive(seed, "miri-subject"));
    let mut cfg = spec::ConfigSpec::default_cfg();
    cfg.eval_push_limit = 40;
    let mut state = gen::gen_state(&mut rng::Rng::new(rng::derive(seed, "state")), &mut ctx);
    state.graphs.clear();
    for x in state.ints.iter_mut() {
        if let spec::IntSpec::NodeId { .. } = x {
            *x = spec::IntSpec::V(2);
        }
    }
    let b = 6 + r.below(14) as usize;
    let prog = vec![ctx.tree(&mut r, b, 2)];
    let mut st = state.build(&cfg);
    spec::load_program(&mut st, &iset, &prog, false);
    let tail = vec![
        Item::int(2),
        Item::int(14),
        Item::int(36),
        Item::float(1.5),
        Item::instruction("LIST.NEIGHBOR*IDS".into()),
        Item::float(0.5),
        Item::instruction("FLOAT.SIN".into()),
        Item::name("x".into()),
        Item::instruction("INTEGER.DEFINE".into()),
        Item::name("x".into()),
        Item::instruction("CODE.SIZE".into()),
    ];
    let mut rev = tail;
    rev.reverse();
    st.exec_stack.push_front(Item::list(rev));
    let o = PushInterpreter::run(&mut st, &mut iset);
    format!("{:?} {}", o, st.to_string())
}

thread_local! {
    static WORKLOAD: std::cell::Cell<u64> = std::cell::Cell::new(0);
}

fn subject() -> String {
    subject_with(WORKLOAD_SEED.load(std::sync::atomic::Ordering::Relaxed))
}

static WORKLOAD_SEED: std::sync::atomic::AtomicU64 = std::sync::atomic::AtomicU64::new(0);

fn main() {
    let args: Vec<String> = std::env::args().collect();
    let threads: usize = args.get(1).and_then(|a| a.parse().ok()).unwrap_or(3);
    let adds: usize = args.get(2).and_then(|a| a.parse().ok()).unwrap_or(3);
    let workload: u64 = args.get(3).and_then(|a| a.parse().ok()).unwrap_or(0);
    WORKLOAD_SEED.store(workload, std::sync::atomic::Ordering::Relaxed);
    let mut handles = vec![];
    for t in 0..threads {
        handles.push(thread::spawn(move || {
            let mut ids = vec![];
            if t % 2 == 0 {
                let mut g = Graph::new();
                for k in 0..adds {
                    ids.push(g.add_node(k as i32));
                }
            } else {
                let mut iset = InstructionSet::new();
                iset.load();
                let cache = iset.cache();
                let mut st = PushState::new();
                st.exec_stack.push(Item::instruction("GRAPH.ADD".into()));
                PushInterpreter::step(&mut st, &mut iset, &cache);
                for k in 0..adds {
                    st.int_stack.push(k as i32);
                    st.exec_stack.push(Item::instruction("GRAPH.NODE*ADD".into()));
                    PushInterpreter::step(&mut st, &mut iset, &cache);
                    ids.push(st.int_stack.pop().expect("id") as usize);
                }
            }
            // a RAND-free, graph-free subject on this thread as well: any unsynchronised
            // process-wide state behind an instruction is a data race Miri reports, and the
            // outcome must be the one a lone thread computes
            let got = subject();
            (ids, got)
        }));
    }
    let solo = subject();
    let mut seen = BTreeSet::new();
    for h in handles {
        let (ids, got) = h.join().unwrap();
        for id in ids {
            assert!(seen.insert(id), "C14 ids: node id {} handed out twice", id);
        }
        assert_eq!(got, solo, "C14 isolation: a subject run beside other threads differs from the lone run");
    }
    assert_eq!(seen.len(), threads * adds);
}
