//! C14 (b) on real std threads under Miri's seeded scheduler and data-race
//! detector: concurrent graph construction never hands out a node id twice.
//! shuttle sees only hooked operations and models SeqCst; a counter moved to a
//! `static mut`, or a racy read-modify-write, is flagged here instead.
use pushr::push::graph::Graph;
use pushr::push::instructions::InstructionSet;
use pushr::push::interpreter::PushInterpreter;
use pushr::push::item::Item;
use pushr::push::state::PushState;
use std::collections::BTreeSet;
use std::thread;

/// A small program touching integer, float, vector, code, name and topology
/// instructions, built from items (no parser, to keep Miri's work small).
fn subject() -> String {
    let mut iset = InstructionSet::new();
    iset.load();
    let mut st = PushState::new();
    let prog = vec![
        Item::int(2),
        Item::int(14),
        Item::int(36),
        Item::float(1.5),
        Item::instruction("LIST.NEIGHBOR*IDS".into()),
        Item::int(7),
        Item::int(5),
        Item::instruction("INTEGER.*".into()),
        Item::float(0.5),
        Item::instruction("FLOAT.SIN".into()),
        Item::name("x".into()),
        Item::instruction("INTEGER.DEFINE".into()),
        Item::name("x".into()),
        Item::instruction("CODE.QUOTE".into()),
        Item::list(vec![Item::int(1), Item::int(2)]),
        Item::instruction("CODE.DUP".into()),
        Item::instruction("CODE.LIST".into()),
        Item::instruction("CODE.SIZE".into()),
    ];
    let mut rev = prog;
    rev.reverse();
    st.exec_stack.push(Item::list(rev));
    let o = PushInterpreter::run(&mut st, &mut iset);
    format!("{:?} {}", o, st.to_string())
}

fn main() {
    let args: Vec<String> = std::env::args().collect();
    let threads: usize = args.get(1).and_then(|a| a.parse().ok()).unwrap_or(3);
    let adds: usize = args.get(2).and_then(|a| a.parse().ok()).unwrap_or(3);
    let mut handles = vec![];
    for t in 0..threads {
        handles.push(thread::spawn(move || {
            let mut ids = vec![];
            if t % 2 == 0 {
                let mut g = Graph::new();
                for k in 0..adds {
                    ids.push(g.add_node(k as i32));
                }
            } else {
                let mut iset = InstructionSet::new();
                iset.load();
                let cache = iset.cache();
                let mut st = PushState::new();
                st.exec_stack.push(Item::instruction("GRAPH.ADD".into()));
                PushInterpreter::step(&mut st, &mut iset, &cache);
                for k in 0..adds {
                    st.int_stack.push(k as i32);
                    st.exec_stack.push(Item::instruction("GRAPH.NODE*ADD".into()));
                    PushInterpreter::step(&mut st, &mut iset, &cache);
                    ids.push(st.int_stack.pop().expect("id") as usize);
                }
            }
            // a RAND-free, graph-free subject on this thread as well: any unsynchronised
            // process-wide state behind an instruction is a data race Miri reports, and the
            // outcome must be the one a lone thread computes
            let got = subject();
            (ids, got)
        }));
    }
    let solo = subject();
    let mut seen = BTreeSet::new();
    for h in handles {
        let (ids, got) = h.join().unwrap();
        for id in ids {
            assert!(seen.insert(id), "C14 ids: node id {} handed out twice", id);
        }
        assert_eq!(got, solo, "C14 isolation: a subject run beside other threads differs from the lone run");
    }
    assert_eq!(seen.len(), threads * adds);
}
