//! C14 (b) on real std threads under Miri's seeded scheduler and data-race
//! detector: concurrent graph construction never hands out a node id twice.
//! shuttle sees only hooked operations and models SeqCst; a counter moved to a
//! `static mut`, or a racy read-modify-write, is flagged here instead.
use pushr::push::graph::Graph;
use pushr::push::instructions::InstructionSet;
use pushr::push::interpreter::PushInterpreter;
use pushr::push::item::Item;
use pushr::push::state::PushState;
use std::collections::BTreeSet;
use std::thread;

fn main() {
    let args: Vec<String> = std::env::args().collect();
    let threads: usize = args.get(1).and_then(|a| a.parse().ok()).unwrap_or(3);
    let adds: usize = args.get(2).and_then(|a| a.parse().ok()).unwrap_or(3);
    let mut handles = vec![];
    for t in 0..threads {
        handles.push(thread::spawn(move || {
            let mut ids = vec![];
            if t % 2 == 0 {
                let mut g = Graph::new();
                for k in 0..adds {
                    ids.push(g.add_node(k as i32));
                }
            } else {
                let mut iset = InstructionSet::new();
                iset.load();
                let cache = iset.cache();
                let mut st = PushState::new();
                st.exec_stack.push(Item::instruction("GRAPH.ADD".into()));
                PushInterpreter::step(&mut st, &mut iset, &cache);
                for k in 0..adds {
                    st.int_stack.push(k as i32);
                    st.exec_stack.push(Item::instruction("GRAPH.NODE*ADD".into()));
                    PushInterpreter::step(&mut st, &mut iset, &cache);
                    ids.push(st.int_stack.pop().expect("id") as usize);
                }
            }
            ids
        }));
    }
    let mut seen = BTreeSet::new();
    for h in handles {
        for id in h.join().unwrap() {
            assert!(seen.insert(id), "C14 ids: node id {} handed out twice", id);
        }
    }
    assert_eq!(seen.len(), threads * adds);
}
